//! C02 — Tamper evidence: manifest store bytes cannot change undetected.
//!
//! Signed stores (single manifest, ingredient chain, redaction, compressed, v1 + databox, three signature
//! algorithms; embedded in a JPEG and as a sidecar) are mutated at byte level (bit flips) and at JUMBF
//! structure level (`vh::jumbf_walk` edits). Oracle, from the property text:
//!   read fails  ∨  state Invalid  ∨  (report, signature info, validation codes) identical to the original;
//!   strict: a change inside claim CBOR / assertion or databox content / COSE protected / COSE signature
//!   must never leave the store Valid or Trusted.

use std::{collections::BTreeMap, io::Cursor, sync::Arc};

use c2pa::{Builder, BuilderIntent, Context, DigitalSourceType, Reader};
use serde::{Deserialize, Serialize};
use serde_json::{json, Value};
use vh::{
    jumbf_walk::{self as jw, BoxInfo, DescField, SpanClass},
    rng::SplitMix64,
    sdk, CaseResult, Fail, Run,
};

pub const JPEG: &str = "image/jpeg";

// ------------------------------------------------------------------------------------------------
// targets
// ------------------------------------------------------------------------------------------------

#[derive(Clone, Copy, PartialEq, Eq, Debug)]
pub enum Mode {
    /// store embedded in the JPEG (re-embedded through `jumbf_io::save_jumbf_to_memory` after mutation)
    Embedded,
    /// store passed next to the unsigned asset (`Reader::with_manifest_data_and_stream`)
    Sidecar,
}

pub struct Target {
    pub name: String,
    pub kind: &'static str,
    pub mode: Mode,
    /// Embedded: the signed JPEG; Sidecar: the asset the store was made for
    pub asset: Vec<u8>,
    pub store: Vec<u8>,
    pub boxes: Vec<BoxInfo>,
    pub tab: Vec<u16>,
    pub classes: Vec<SpanClass>,
    pub ctx: Arc<Context>,
    pub base_report: Value,
    pub base_verdict: sdk::Verdict,
    pub layout: u64,
    /// per manifest ordinal (all but the active = last one): a different manifest carrying that manifest's
    /// label, made with the public Builder (`definition.label`) and signed with another credential
    pub forged: Vec<Vec<u8>>,
}

pub fn definition(title: &str, ver: u8) -> Value {
    json!({
        "title": title,
        "claim_version": ver,
        "claim_generator_info": [{ "name": "verif-harness", "version": "0.1" }],
        "assertions": [
            { "label": "org.verif.note", "data": { "note": "hello", "n": 1, "list": [1, 2, 3], "big": 70000 } },
        ]
    })
}

pub fn settings(compress: bool) -> Value {
    let mut s = sdk::base_settings(true);
    if compress {
        sdk::merge(&mut s, &json!({"core": {"prefer_compress_manifests": true}}));
    }
    s
}

pub struct Signed {
    pub asset: Vec<u8>,
    /// sidecar store bytes when `no_embed`
    pub sidecar: Option<Vec<u8>>,
}

pub fn sign(mut b: Builder, alg: &str, src: &[u8], no_embed: bool) -> Result<Signed, String> {
    if no_embed {
        b.set_no_embed(true);
    }
    let signer = sdk::signer(alg);
    let mut out = Cursor::new(Vec::new());
    let data = b
        .sign(signer.as_ref(), JPEG, &mut Cursor::new(src.to_vec()), &mut out)
        .map_err(|e| format!("sign: {e}"))?;
    Ok(Signed { asset: out.into_inner(), sidecar: if no_embed { Some(data) } else { None } })
}

pub fn builder(ctx: &Arc<Context>, def: &Value, intent: Option<BuilderIntent>) -> Result<Builder, String> {
    let mut b = Builder::from_shared_context(ctx)
        .with_definition(def.to_string())
        .map_err(|e| format!("definition: {e}"))?;
    if let Some(i) = intent {
        b.set_intent(i);
    }
    Ok(b)
}

pub fn pseudo_thumb(n: usize) -> Vec<u8> {
    // not decoded by anything (thumbnail generation is off): JPEG magic + counter bytes
    let mut v = vec![0xff, 0xd8, 0xff, 0xe0];
    v.extend((0..n).map(|i| (i * 7 + 3) as u8));
    v.extend([0xff, 0xd9]);
    v
}

pub const KINDS: [&str; 6] = ["single", "chain", "redact", "compressed", "v1box", "ps256"];

/// Build the signed asset (+ sidecar store) for one store kind.
pub fn build_kind(kind: &str, no_embed: bool) -> Result<(Signed, Arc<Context>), String> {
    let src = sdk::fixture("no_manifest.jpg");
    let ctx = Arc::new(sdk::context_with(&settings(kind == "compressed")));
    let create = Some(BuilderIntent::Create(DigitalSourceType::Empty));
    let s = match kind {
        // one v2 manifest: CBOR + JSON assertion, embedded-file (thumbnail) assertion, ed25519
        "single" => {
            let mut b = builder(&ctx, &definition("single", 2), create)?;
            b.add_assertion_json("org.verif.json", &json!({"k": "v", "n": [1, 2, 3]})).map_err(|e| e.to_string())?;
            b.set_thumbnail(JPEG, &mut Cursor::new(pseudo_thumb(200))).map_err(|e| e.to_string())?;
            sign(b, "ed25519", &src, no_embed)?
        }
        // D(ed25519, v2) <- parent B(ps256, v2) <- parent A(es256, v1); components C(ed25519, v2) and an unsigned JPEG
        // (a v1 claim cannot take a v2 ingredient: "ingredient version too new")
        "chain" => {
            let plain = Arc::new(sdk::context());
            let a = sign(builder(&plain, &definition("A", 1), None)?, "es256", &src, false)?.asset;
            let mut bb = builder(&plain, &definition("B", 2), Some(BuilderIntent::Edit))?;
            bb.add_ingredient_from_stream(
                json!({"title": "A.jpg", "relationship": "parentOf"}).to_string(),
                JPEG,
                &mut Cursor::new(a.clone()),
            )
            .map_err(|e| format!("ingredient A: {e}"))?;
            let b = sign(bb, "ps256", &a, false)?.asset;
            let c = sign(builder(&plain, &definition("C", 2), create.clone())?, "ed25519", &src, false)?.asset;
            let mut bd = builder(&ctx, &definition("D", 2), Some(BuilderIntent::Edit))?;
            bd.add_ingredient_from_stream(
                json!({"title": "C.jpg", "relationship": "componentOf"}).to_string(),
                JPEG,
                &mut Cursor::new(c),
            )
            .map_err(|e| format!("ingredient C: {e}"))?;
            bd.add_ingredient_from_stream(
                json!({"title": "plain.jpg", "relationship": "componentOf"}).to_string(),
                JPEG,
                &mut Cursor::new(src.clone()),
            )
            .map_err(|e| format!("ingredient plain: {e}"))?;
            sign(bd, "ed25519", &b, no_embed)?
        }
        // A0(ed25519) <- A(es256, carries c2pa.metadata and org.verif.note) <- update manifest U(ed25519) which
        // redacts A's c2pa.metadata and A's org.verif.note and carries its own org.verif.note (same label and
        // instance as the redacted one); A0 keeps a third org.verif.note. A redaction must only excuse the
        // missing assertion of the manifest it names.
        "redact" => {
            let a0 = sign(builder(&ctx, &definition("A0", 2), create)?, "ed25519", &src, false)?.asset;
            let mut ba = builder(&ctx, &definition("A", 2), Some(BuilderIntent::Edit))?;
            ba.add_assertion(
                "c2pa.metadata",
                &json!({
                    "@context": {"exif": "http://ns.adobe.com/exif/1.0/", "tiff": "http://ns.adobe.com/tiff/1.0/"},
                    "exif:GPSLatitude": "39,21.102N", "tiff:Make": "CameraCompany"
                }),
            )
            .map_err(|e| e.to_string())?;
            let src = a0;
            let a = sign(ba, "es256", &src, false)?.asset;
            let r = Reader::from_shared_context(&ctx).with_stream(JPEG, Cursor::new(a.clone())).map_err(|e| e.to_string())?;
            let am = r.active_manifest().ok_or("no manifest")?;
            let find = |needle: &str| am.assertion_references().find(|r| r.url().contains(needle)).map(|r| r.url()).ok_or(format!("no {needle} reference"));
            let uris = vec![find("c2pa.metadata")?, find("org.verif.note")?];
            let udef = json!({
                "title": "U",
                "claim_version": 2,
                "claim_generator_info": [{ "name": "verif-harness", "version": "0.1" }],
                "assertions": [{ "label": "org.verif.note", "data": { "note": "the update manifest's own note", "n": 2 } }]
            });
            let mut bu = builder(&ctx, &udef, Some(BuilderIntent::Update))?;
            bu.definition.redactions = Some(uris.clone());
            for uri in &uris {
                let act = c2pa::assertions::Action::new(c2pa::assertions::c2pa_action::REDACTED)
                    .set_reason(c2pa::assertions::C2paReason::PiiPresent)
                    .set_parameter("redacted", uri)
                    .map_err(|e| e.to_string())?;
                bu.add_action(act).map_err(|e| e.to_string())?;
            }
            let mut s = sign(bu, "ed25519", &a, no_embed)?;
            if no_embed {
                // the update manifest has no hard binding of its own; A's data hash was made for the asset
                // with A's store embedded, whereas the no_embed output has that store stripped. The sidecar
                // is therefore validated against the asset A was signed into.
                s.asset = a;
            }
            s
        }
        // box-hashed + Brotli-compressed manifest box
        "compressed" => sign(builder(&ctx, &definition("compressed", 2), create)?, "ed25519", &src, no_embed)?,
        // v1 claim whose ingredient thumbnail lives in a data box, es256
        "v1box" => {
            let mut b = builder(&ctx, &definition("v1box", 1), None)?;
            let ing = b
                .add_ingredient_from_stream(
                    json!({"title": "plain.jpg", "relationship": "componentOf"}).to_string(),
                    JPEG,
                    &mut Cursor::new(src.clone()),
                )
                .map_err(|e| format!("ingredient: {e}"))?;
            ing.set_thumbnail(JPEG, pseudo_thumb(120)).map_err(|e| e.to_string())?;
            sign(b, "es256", &src, no_embed)?
        }
        // plain v1 claim, ps256
        "ps256" => sign(builder(&ctx, &definition("ps256", 1), None)?, "ps256", &src, no_embed)?,
        other => return Err(format!("unknown store kind {other}")),
    };
    Ok((s, ctx))
}

pub fn layout_digest(boxes: &[BoxInfo]) -> u64 {
    let v: Vec<(usize, usize, usize, [u8; 4], usize, Option<(usize, usize, usize, usize)>)> = boxes
        .iter()
        .map(|b| {
            (
                b.start,
                b.header_len,
                b.len,
                b.box_type,
                b.depth,
                b.cose.as_ref().map(|c| (c.protected_body.start, c.protected_body.end, c.signature_body.start, c.signature_body.end)),
            )
        })
        .collect();
    vh::digest(&v)
}

pub fn read_store(t_mode: Mode, ctx: &Arc<Context>, asset: &[u8], store: &[u8]) -> Result<Result<Reader, String>, String> {
    // outer Err = the mutant cannot be embedded (no asset to read)
    match t_mode {
        Mode::Embedded => {
            let a = match vh::catch(|| c2pa::jumbf_io::save_jumbf_to_memory(JPEG, asset, store)) {
                Ok(Ok(a)) => a,
                Ok(Err(e)) => return Err(format!("embed: {e}")),
                Err(p) => return Err(format!("embed panicked: {p}")),
            };
            Ok(match vh::catch(|| Reader::from_shared_context(ctx).with_stream(JPEG, Cursor::new(a))) {
                Ok(Ok(r)) => Ok(r),
                Ok(Err(e)) => Err(format!("{e}")),
                Err(p) => Err(format!("PANIC {p}")),
            })
        }
        Mode::Sidecar => Ok(
            match vh::catch(|| Reader::from_shared_context(ctx).with_manifest_data_and_stream(store, JPEG, Cursor::new(asset.to_vec()))) {
                Ok(Ok(r)) => Ok(r),
                Ok(Err(e)) => Err(format!("{e}")),
                Err(p) => Err(format!("PANIC {p}")),
            },
        ),
    }
}

pub fn build_target(kind: &'static str, mode: Mode) -> Result<Target, String> {
    let (signed, ctx) = build_kind(kind, mode == Mode::Sidecar)?;
    let (asset, store) = match mode {
        Mode::Embedded => {
            let st = sdk::store_of(JPEG, &signed.asset).map_err(|e| format!("store_of: {e}"))?;
            (signed.asset, st)
        }
        Mode::Sidecar => (signed.asset, signed.sidecar.ok_or("no sidecar data")?),
    };
    let mut forged = vec![];
    let boxes = jw::walk_store(&store)?;
    let labels: Vec<String> = boxes.iter().filter(|b| b.depth == 1 && b.is(&jw::T_JUMB)).map(|b| b.label.clone().unwrap_or_default()).collect();
    if labels.len() >= 2 && !boxes.iter().any(|b| b.is(&jw::T_BROB)) {
        for l in &labels[..labels.len() - 1] {
            forged.push(forge_manifest(l)?);
        }
    }
    target_from(kind, mode, ctx, asset, store, forged)
}

/// A manifest box (jumb) with label `label`, other content and another signer than the manifest it imitates.
pub fn forge_manifest(label: &str) -> Result<Vec<u8>, String> {
    let ctx = Arc::new(sdk::context());
    // v1 manifests are labelled urn:uuid:…, v2 manifests urn:c2pa:…; the Builder insists on the matching form
    let v1 = label.starts_with("urn:uuid:");
    let def = json!({
        "title": "forged",
        "label": label,
        "claim_version": if v1 { 1 } else { 2 },
        "claim_generator_info": [{ "name": "forger", "version": "6.6" }],
        "assertions": [{ "label": "org.verif.note", "data": { "note": "this manifest was not the ingredient" } }]
    });
    let b = builder(&ctx, &def, if v1 { None } else { Some(BuilderIntent::Create(DigitalSourceType::Empty)) })?;
    let asset = sign(b, "es384", &sdk::fixture("no_manifest.jpg"), false)?.asset;
    let st = sdk::store_of(JPEG, &asset).map_err(|e| format!("store_of: {e}"))?;
    let bx = jw::walk_store(&st)?;
    let m = bx.iter().find(|b| b.depth == 1 && b.is(&jw::T_JUMB)).ok_or("forged store has no manifest")?;
    if m.label.as_deref() != Some(label) {
        return Err(format!("the Builder did not use the requested label {label} (got {:?})", m.label));
    }
    Ok(st[m.start..m.end()].to_vec())
}

/// Analyse a signed store: box tree, class table, baseline report (also used by the worker processes, which
/// load the stores the parent built).
pub fn target_from(kind: &'static str, mode: Mode, ctx: Arc<Context>, asset: Vec<u8>, store: Vec<u8>, forged: Vec<Vec<u8>>) -> Result<Target, String> {
    let boxes = jw::walk_store(&store)?;
    let (tab, classes) = jw::class_table(&boxes, store.len());
    let name = format!("{kind}/{}", if mode == Mode::Embedded { "jpeg" } else { "sidecar" });
    let r = read_store(mode, &ctx, &asset, &store)?.map_err(|e| format!("{name}: original does not read: {e}"))?;
    let base_report = report(&r);
    let base_verdict = sdk::verdict(&r);
    if base_verdict.state != "Trusted" {
        return Err(format!("{name}: original is {} ({:?})", base_verdict.state, sdk::failure_codes(&r)));
    }
    // the equality oracle needs deterministic reports
    let r2 = read_store(mode, &ctx, &asset, &store)?.map_err(|e| format!("{name}: second read fails: {e}"))?;
    if report(&r2) != base_report || sdk::verdict(&r2) != base_verdict {
        return Err(format!("{name}: two reads of the same bytes give different reports"));
    }
    if mode == Mode::Embedded {
        // re-embedding the unchanged store must reproduce the asset byte for byte, and a same-length
        // mutation must change store bytes only
        let again = c2pa::jumbf_io::save_jumbf_to_memory(JPEG, &asset, &store).map_err(|e| format!("re-embed: {e}"))?;
        if again != asset {
            return Err(format!("{name}: re-embedding the unchanged store changes the asset"));
        }
        let mut m = store.clone();
        let p = m.len() / 2;
        m[p] ^= 0x10;
        let mutated = c2pa::jumbf_io::save_jumbf_to_memory(JPEG, &asset, &m).map_err(|e| format!("re-embed: {e}"))?;
        let diff: Vec<usize> = (0..asset.len().min(mutated.len())).filter(|i| asset[*i] != mutated[*i]).collect();
        if mutated.len() != asset.len() || diff.len() != 1 || (asset[diff[0]] ^ mutated[diff[0]]) != 0x10 {
            return Err(format!("{name}: a one-bit store mutation changes {} asset bytes", diff.len()));
        }
    }
    let layout = layout_digest(&boxes);
    Ok(Target { name, kind, mode, asset, store, boxes, tab, classes, ctx, base_report, base_verdict, layout, forged })
}

// ------------------------------------------------------------------------------------------------
// cases
// ------------------------------------------------------------------------------------------------

#[derive(Clone, Debug, Serialize, Deserialize, PartialEq, Eq, Hash)]
pub enum Mutation {
    Flip { pos: usize, bit: u8 },
    Edit(jw::Edit),
    /// splice the forged manifest that carries the label of manifest number `victim` into the store:
    /// place 0 = right after the victim, 1 = right before it, 2 = instead of it (outer length fixed up)
    Forge { victim: usize, place: u8 },
}

pub fn forge_edit(t: &Target, victim: usize, place: u8) -> Option<jw::Edit> {
    let raw = t.forged.get(victim)?.clone();
    let idx = t.boxes.iter().enumerate().filter(|(_, b)| b.depth == 1 && b.is(&jw::T_JUMB)).nth(victim)?.0;
    Some(match place {
        0 => jw::Edit::InsertAfter { idx, raw, fix: true },
        1 => jw::Edit::InsertBefore { idx, raw, fix: true },
        _ => jw::Edit::Replace { idx, raw, fix: true },
    })
}

pub fn mutation_kind(m: &Mutation) -> &'static str {
    match m {
        Mutation::Flip { .. } => "flip",
        Mutation::Edit(e) => e.kind(),
        Mutation::Forge { place: 0, .. } => "forge-after",
        Mutation::Forge { place: 1, .. } => "forge-before",
        Mutation::Forge { .. } => "forge-replace",
    }
}

#[derive(Clone, Debug, Serialize, Deserialize, PartialEq, Eq, Hash)]
pub struct Case {
    /// "<kind>/<jpeg|sidecar>"
    pub target: String,
    /// digest of the box layout the offsets refer to (stores are rebuilt per run; URNs, salts and signatures
    /// differ between runs but all lengths are fixed)
    pub layout: u64,
    pub m: Mutation,
}

pub fn class_detail(c: &SpanClass, boxes: &[BoxInfo], pos: usize) -> String {
    // span class name refined by the content box type for assertion payloads (bfdb / bidb / cbor / json / uuid)
    match c {
        SpanClass::AssertionPayload { .. } | SpanClass::DataboxPayload | SpanClass::CredentialPayload => {
            let t = jw::box_at(boxes, pos).map(|i| boxes[i].type_str()).unwrap_or_default();
            format!("{}-{}", c.name(), t)
        }
        SpanClass::BoxHeader { box_type } => format!("box-header-{box_type}"),
        _ => c.name(),
    }
}

/// Which part of a manifest the byte belongs to: store-top, manifest-desc, assertions, claim, signature,
/// databoxes, credentials, compressed, other.
pub fn region(boxes: &[BoxInfo], pos: usize) -> String {
    let Some(i) = jw::box_at(boxes, pos) else {
        return "other".into();
    };
    if boxes[i].is(&jw::T_BROB) {
        return "compressed".into();
    }
    let mut chain = vec![i];
    chain.extend(jw::ancestors(boxes, i));
    // chain is innermost first; the manifest-level box is the jumb at depth 2
    for k in &chain {
        let b = &boxes[*k];
        if b.depth == 2 && b.is(&jw::T_JUMB) {
            let l = b.label.clone().unwrap_or_default();
            return match jw::base_label(&l) {
                "c2pa.assertions" => "assertions",
                "c2pa.claim" | "c2pa.claim.v2" => "claim",
                "c2pa.signature" => "signature",
                "c2pa.databoxes" => "databoxes",
                "c2pa.credentials" => "credentials",
                _ => "other",
            }
            .into();
        }
    }
    if chain.iter().any(|k| boxes[*k].depth == 1) {
        "manifest-desc".into()
    } else {
        "store-top".into()
    }
}

pub fn hashed_class(c: &SpanClass) -> bool {
    c.is_strict()
        || matches!(
            c,
            SpanClass::CredentialPayload
                | SpanClass::Compressed
                | SpanClass::DescriptionBox { field: DescField::Label | DescField::Salt | DescField::Uuid }
        )
}

/// The report with the arrays of validation results put in a canonical order: the order in which status
/// entries and ingredient deltas are listed follows the order of validation steps (assertion-store order),
/// it is not manifest content. Everything else is compared as is.
pub fn report(r: &Reader) -> Value {
    fn sort_arr(v: &mut Value) {
        if let Value::Array(a) = v {
            a.sort_by_key(|x| x.to_string());
        }
    }
    fn walk(v: &mut Value) {
        match v {
            Value::Object(m) => {
                for (k, x) in m.iter_mut() {
                    walk(x);
                    if matches!(k.as_str(), "ingredientDeltas" | "success" | "informational" | "failure" | "validation_status") {
                        sort_arr(x);
                    }
                }
            }
            Value::Array(a) => a.iter_mut().for_each(walk),
            _ => {}
        }
    }
    let mut v = sdk::report_same_bytes(r);
    walk(&mut v);
    v
}

pub fn first_diff(a: &Value, b: &Value, path: &str) -> Option<String> {
    if a == b {
        return None;
    }
    match (a, b) {
        (Value::Object(x), Value::Object(y)) => {
            for (k, v) in x {
                match y.get(k) {
                    None => return Some(format!("{path}/{k}: removed")),
                    Some(w) => {
                        if let Some(d) = first_diff(v, w, &format!("{path}/{k}")) {
                            return Some(d);
                        }
                    }
                }
            }
            for k in y.keys() {
                if !x.contains_key(k) {
                    return Some(format!("{path}/{k}: added"));
                }
            }
            Some(format!("{path}: key order"))
        }
        (Value::Array(x), Value::Array(y)) => {
            for (i, (v, w)) in x.iter().zip(y.iter()).enumerate() {
                if let Some(d) = first_diff(v, w, &format!("{path}[{i}]")) {
                    return Some(d);
                }
            }
            Some(format!("{path}: length {} -> {}", x.len(), y.len()))
        }
        _ => {
            let s = |v: &Value| {
                let mut t = v.to_string();
                if t.len() > 80 {
                    t.truncate(80);
                }
                t
            };
            Some(format!("{path}: {} -> {}", s(a), s(b)))
        }
    }
}

/// Short stable token for a report difference: last key of the path + kind of change
/// (`/json/manifests/urn…/ingredients[0]/thumbnail: removed` -> `thumbnail-removed`).
pub fn diff_token(d: &str) -> String {
    let (path, change) = d.split_once(": ").unwrap_or((d, ""));
    let last = path.rsplit('/').next().unwrap_or("");
    let key: String = last.chars().take_while(|c| *c != '[').filter(|c| c.is_ascii_alphanumeric() || *c == '_').take(24).collect();
    let kind = if change.starts_with("removed") {
        "removed"
    } else if change.starts_with("added") {
        "added"
    } else if change.starts_with("length") {
        "length"
    } else {
        "changed"
    };
    format!("{}-{kind}", if key.is_empty() { "root" } else { &key })
}

pub fn describe(t: &Target, m: &Mutation) -> (String, usize, usize) {
    // (text, start, end) of the changed span in the original
    match m {
        Mutation::Flip { pos, bit } => (format!("flip bit {bit} of byte {pos}"), *pos, pos + 1),
        Mutation::Edit(e) => {
            let sp = jw::edit_span(&t.boxes, e).unwrap_or(jw::Span::new(0, 0));
            (format!("{e:?}"), sp.start, sp.end.max(sp.start))
        }
        Mutation::Forge { victim, place } => {
            let sp = forge_edit(t, *victim, *place).and_then(|e| jw::edit_span(&t.boxes, &e)).unwrap_or(jw::Span::new(0, 0));
            let how = match place {
                0 => "inserted right after it",
                1 => "inserted right before it",
                _ => "put in its place",
            };
            (format!("a different manifest (other signer, other content) carrying the label of manifest {victim} {how}"), sp.start, sp.end.max(sp.start))
        }
    }
}

/// The mutated store, or None when the mutation does not apply to this store.
pub fn apply_mutation(t: &Target, m: &Mutation) -> Option<Vec<u8>> {
    match m {
        Mutation::Flip { pos, bit } => {
            if *pos >= t.store.len() || *bit > 7 {
                return None;
            }
            let mut v = t.store.clone();
            v[*pos] ^= 1 << bit;
            Some(v)
        }
        Mutation::Edit(e) => jw::apply_edit(&t.store, &t.boxes, e),
        Mutation::Forge { victim, place } => jw::apply_edit(&t.store, &t.boxes, &forge_edit(t, *victim, *place)?),
    }
}

/// Everything one evaluation produces (collected in worker processes, applied to the `Run` by the parent).
pub struct Outcome {
    pub classes: Vec<String>,
    pub nontrivial: bool,
    pub res: CaseResult,
}

#[derive(Default)]
pub struct Sink {
    pub classes: std::cell::RefCell<Vec<String>>,
    pub nt: std::cell::Cell<bool>,
}

impl Sink {
    pub fn count(&self, c: &str) {
        self.classes.borrow_mut().push(c.to_string());
    }
    pub fn into_outcome(self, res: CaseResult) -> Outcome {
        Outcome { classes: self.classes.into_inner(), nontrivial: self.nt.get(), res }
    }
}

pub const LAYOUT_CHANGED: &str = "skipped_layout_changed";

fn judge(targets: &BTreeMap<String, Target>, selftest: bool, c: &Case) -> Outcome {
    let sink = Sink::default();
    let res = judge_inner(&sink, targets, selftest, c);
    sink.into_outcome(res)
}

fn judge_inner(run: &Sink, targets: &BTreeMap<String, Target>, selftest: bool, c: &Case) -> CaseResult {
    let Some(t) = targets.get(&c.target) else {
        run.count("skipped_unknown_target");
        return Ok(());
    };
    if t.layout != c.layout {
        run.count(LAYOUT_CHANGED);
        return Ok(());
    }
    let Some(mutated) = apply_mutation(t, &c.m) else {
        run.count("edit_not_applicable");
        return Ok(());
    };
    if mutated == t.store {
        run.count("edit_is_noop");
        return Ok(());
    }
    let (text, s, e) = describe(t, &c.m);
    // classes of the changed bytes (an insertion point is classified by what it is inserted next to)
    let lo = s.min(t.store.len().saturating_sub(1));
    let hi = e.max(lo + 1).min(t.store.len());
    let mut cls: Vec<usize> = t.tab[lo..hi].iter().map(|k| *k as usize).collect();
    cls.sort();
    cls.dedup();
    let is_flip = matches!(c.m, Mutation::Flip { .. });
    let kind_name = mutation_kind(&c.m).to_string();
    // strict rule: content really changed inside a strict span. For whole-box structural edits the content
    // of the box is removed / moved / doubled, which changes what the claim or signature commits to only if
    // the edit is not a pure re-ordering; the strict rule is applied to in-place changes (flips, label/uuid/
    // toggle bytes) and the three-way rule to everything.
    let strict_hit: Option<&SpanClass> = if is_flip { cls.iter().map(|k| &t.classes[*k]).find(|c| c.is_strict()) } else { None };
    let main_class = cls
        .iter()
        .map(|k| &t.classes[*k])
        .find(|c| hashed_class(c))
        .or_else(|| cls.first().map(|k| &t.classes[*k]))
        .cloned()
        .unwrap_or(SpanClass::Other);
    let detail = class_detail(&main_class, &t.boxes, lo);
    run.count(&format!("{kind_name}:{detail}"));
    if cls.iter().any(|k| hashed_class(&t.classes[*k])) || matches!(c.m, Mutation::Forge { .. }) {
        run.nt.set(true);
    }
    let to_read: &[u8] = if selftest && main_class == SpanClass::ClaimCbor { &t.store } else { &mutated };
    let res = match read_store(t.mode, &t.ctx, &t.asset, to_read) {
        Err(_) => {
            run.count("outcome:cannot-embed");
            return Ok(());
        }
        Ok(r) => r,
    };
    let reader = match res {
        Err(e) => {
            if e.starts_with("PANIC") {
                run.count("outcome:read-panicked");
                run.count(&format!("read-panicked-at:{}", vh::core::panic_site(&e[6..])));
            } else {
                run.count("outcome:read-error");
            }
            return Ok(());
        }
        Ok(r) => r,
    };
    let v = sdk::verdict(&reader);
    if v.state == "Invalid" {
        run.count("outcome:invalid");
        return Ok(());
    }
    let path = jw::box_at(&t.boxes, lo).map(|i| t.boxes[i].path.clone()).unwrap_or_default();
    let path = match jw::manifest_of(&t.boxes, lo) {
        Some((n, label)) => path.replace(&label, &format!("<manifest {n}>")),
        None => path,
    };
    let rep = report(&reader);
    if let Some(sc) = strict_hit {
        let d = class_detail(sc, &t.boxes, lo);
        let rd = if rep == t.base_report && v == t.base_verdict {
            "report identical".to_string()
        } else {
            format!("report differs: {}", first_diff(&t.base_report, &rep, "").unwrap_or_else(|| "verdict codes".into()))
        };
        return Err(Fail::new(
            format!("C02:changed-{d}-reported-valid:{}", t.kind),
            format!("{}: {text} (class {d}, box {path}) changes {d}; the store is still reported {} (was {}); {rd}", t.name, v.state, t.base_verdict.state),
        ));
    }
    if rep != t.base_report || v != t.base_verdict {
        let diff = first_diff(&t.base_report, &rep, "").unwrap_or_else(|| "verdict codes".into());
        let what = if v != t.base_verdict {
            let gone: Vec<&String> = t.base_verdict.codes.iter().filter(|x| !v.codes.contains(x)).take(3).collect();
            let new: Vec<&String> = v.codes.iter().filter(|x| !t.base_verdict.codes.contains(x)).take(3).collect();
            format!("verdict {} -> {}; codes gone {gone:?}, new {new:?}; first report difference {diff}", t.base_verdict.state, v.state)
        } else {
            diff.clone()
        };
        return Err(Fail::new(
            format!("C02:report-changed-still-valid:{}:{}:{}", region(&t.boxes, lo), diff_token(&diff), t.kind),
            format!("{}: {text} (class {detail}, box {path}): state {} (was {}), report differs: {what}", t.name, v.state, t.base_verdict.state),
        ));
    }
    run.count("outcome:valid-identical-report");
    if std::env::var("VERIF_TRACE").is_ok() {
        eprintln!("UNNOTICED {} {text} class {detail} box {path}", t.name);
    }
    run.count(&format!("unnoticed:{kind_name}:{detail}"));
    Ok(())
}

pub fn cases_for(t: &Target, run: &Run, thorough_all_bits: bool, flips_budget: usize) -> Vec<Case> {
    let mut v = vec![];
    let mk = |m: Mutation| Case { target: t.name.clone(), layout: t.layout, m };
    for victim in 0..t.forged.len() {
        for place in 0..3u8 {
            v.push(mk(Mutation::Forge { victim, place }));
        }
    }
    for e in jw::all_structural_edits(&t.store, &t.boxes, !run.quick()) {
        v.push(mk(Mutation::Edit(e)));
    }
    let n = t.store.len();
    if thorough_all_bits {
        for pos in 0..n {
            for bit in 0..8 {
                v.push(mk(Mutation::Flip { pos, bit }));
            }
        }
        return v;
    }
    // stratified: every byte of box headers, description boxes, COSE framing / protected / signature and
    // claim CBOR and of assertion / data-box / credential content gets one seeded bit (headers, toggles and COSE framing: all 8 bits); the remaining budget
    // is spread over the other bytes.
    let mut rng = SplitMix64::new(run.seed ^ vh::digest(&t.name));
    let mut rest = vec![];
    let mut prio = 0usize;
    for pos in 0..n {
        let c = &t.classes[t.tab[pos] as usize];
        match c {
            SpanClass::BoxHeader { .. }
            | SpanClass::CoseFraming
            | SpanClass::DescriptionBox { field: DescField::Toggles | DescField::SaltHeader | DescField::Other } => {
                for bit in 0..8 {
                    v.push(mk(Mutation::Flip { pos, bit }));
                }
                prio += 8;
            }
            SpanClass::DescriptionBox { .. }
            | SpanClass::ClaimCbor
            | SpanClass::CoseSignature
            | SpanClass::AssertionPayload { .. }
            | SpanClass::DataboxPayload
            | SpanClass::CredentialPayload => {
                v.push(mk(Mutation::Flip { pos, bit: (rng.next_u64() % 8) as u8 }));
                prio += 1;
            }
            SpanClass::CoseProtected => {
                // the certificate chain dominates: every 4th byte
                if rng.next_u64() % 4 == 0 {
                    v.push(mk(Mutation::Flip { pos, bit: (rng.next_u64() % 8) as u8 }));
                    prio += 1;
                }
            }
            _ => rest.push(pos),
        }
    }
    let want = flips_budget.saturating_sub(prio.min(flips_budget * 3 / 4)).max(flips_budget / 4);
    for _ in 0..want.min(rest.len() * 8) {
        let pos = rest[(rng.next_u64() % rest.len() as u64) as usize];
        v.push(mk(Mutation::Flip { pos, bit: (rng.next_u64() % 8) as u8 }));
    }
    v
}

// ------------------------------------------------------------------------------------------------
// worker processes: the SDK serialises certificate / signature work behind a process-wide OpenSSL mutex, so
// threads do not scale; the parent builds the stores, writes them to /verif/work/C02 and runs N copies of
// itself (VERIF_C02_WORKER=i/N), each evaluating every N-th case; the outcomes are fed to the Run through
// the normal driver.
// ------------------------------------------------------------------------------------------------

#[derive(Serialize, Deserialize, Default)]
pub struct WorkerOut {
    pub class_names: Vec<String>,
    /// (case index, non-trivial, class ids)
    pub recs: Vec<(u32, bool, Vec<u16>)>,
    /// (case index, signature, what)
    pub fails: Vec<(u32, String, String)>,
}

pub fn mode_name(m: Mode) -> &'static str {
    if m == Mode::Embedded {
        "jpeg"
    } else {
        "sidecar"
    }
}

pub fn save_targets(dir: &str, targets: &BTreeMap<String, Target>) -> Result<(), String> {
    let _ = std::fs::remove_dir_all(dir);
    std::fs::create_dir_all(dir).map_err(|e| e.to_string())?;
    let mut list = vec![];
    for (n, t) in targets.values().enumerate() {
        std::fs::write(format!("{dir}/t{n}.asset"), &t.asset).map_err(|e| e.to_string())?;
        std::fs::write(format!("{dir}/t{n}.store"), &t.store).map_err(|e| e.to_string())?;
        for (k, f) in t.forged.iter().enumerate() {
            std::fs::write(format!("{dir}/t{n}.forge{k}"), f).map_err(|e| e.to_string())?;
        }
        list.push(json!({"n": n, "kind": t.kind, "mode": mode_name(t.mode), "forged": t.forged.len()}));
    }
    std::fs::write(format!("{dir}/targets.json"), Value::Array(list).to_string()).map_err(|e| e.to_string())
}

pub fn load_targets(dir: &str) -> Result<BTreeMap<String, Target>, String> {
    let txt = std::fs::read_to_string(format!("{dir}/targets.json")).map_err(|e| e.to_string())?;
    let list: Vec<Value> = serde_json::from_str(&txt).map_err(|e| e.to_string())?;
    let mut out = BTreeMap::new();
    for e in list {
        let n = e["n"].as_u64().unwrap_or(0);
        let kind = KINDS.iter().copied().find(|k| Some(*k) == e["kind"].as_str()).ok_or("bad kind")?;
        let mode = if e["mode"] == "jpeg" { Mode::Embedded } else { Mode::Sidecar };
        let asset = std::fs::read(format!("{dir}/t{n}.asset")).map_err(|e| e.to_string())?;
        let store = std::fs::read(format!("{dir}/t{n}.store")).map_err(|e| e.to_string())?;
        let ctx = Arc::new(sdk::context_with(&settings(kind == "compressed")));
        let mut forged = vec![];
        for k in 0..e["forged"].as_u64().unwrap_or(0) {
            forged.push(std::fs::read(format!("{dir}/t{n}.forge{k}")).map_err(|e| e.to_string())?);
        }
        let t = target_from(kind, mode, ctx, asset, store, forged)?;
        out.insert(t.name.clone(), t);
    }
    Ok(out)
}

pub type Targets = BTreeMap<String, Target>;
pub type Table = std::collections::HashMap<u64, (bool, Vec<String>, CaseResult)>;

/// Body of a worker process: load the stores the parent wrote, regenerate the case list, evaluate every
/// n-th case and write the outcomes to `<dir>/out-<i>.json`.
pub fn worker_main(run: &Run, dir: &str, spec: &str, gen: &dyn Fn(&Run, &Targets) -> Vec<Case>, judge: &dyn Fn(&Targets, &Case) -> Outcome) -> ! {
    let (i, n) = spec.split_once('/').map(|(a, b)| (a.parse::<usize>().unwrap_or(0), b.parse::<usize>().unwrap_or(1))).unwrap_or((0, 1));
    let dir = std::env::var("VERIF_SHARD_DIR").unwrap_or_else(|_| dir.to_string());
    let dir = dir.as_str();
    let targets = match load_targets(dir) {
        Ok(t) => t,
        Err(e) => {
            eprintln!("worker {spec}: {e}");
            std::process::exit(3);
        }
    };
    let cases = gen(run, &targets);
    let trace = std::env::var("VERIF_TRACE").is_ok();
    let mut out = WorkerOut::default();
    for (k, c) in cases.iter().enumerate() {
        if k % n != i {
            continue;
        }
        let o = judge(&targets, c);
        let ids: Vec<u16> = o
            .classes
            .iter()
            .map(|c| match out.class_names.iter().position(|x| x == c) {
                Some(p) => p as u16,
                None => {
                    out.class_names.push(c.clone());
                    (out.class_names.len() - 1) as u16
                }
            })
            .collect();
        out.recs.push((k as u32, o.nontrivial, ids));
        if let Err(f) = o.res {
            if trace {
                eprintln!("FAIL {} {}", f.signature, f.what);
            }
            out.fails.push((k as u32, f.signature, f.what));
        }
    }
    let txt = serde_json::to_string(&out).unwrap_or_default();
    if std::fs::write(format!("{dir}/out-{i}.json"), txt).is_err() {
        std::process::exit(3);
    }
    std::process::exit(0);
}

/// Parent side: write the stores, run `procs` copies of this binary as workers, collect the outcome of
/// every case (keyed by case digest). An empty table means "evaluate in this process".
pub fn evaluate_sharded(run: &Run, dir: &str, env_key: &str, procs: usize, targets: &Targets, cases: &[Case]) -> Table {
    let mut table: Table = Default::default();
    // one sub-directory per parent process so that concurrent runs of the same check do not collide
    let dir = format!("{dir}/p{}", std::process::id());
    let dir = dir.as_str();
    let n = std::env::var("VERIF_PROCS").ok().and_then(|v| v.parse().ok()).unwrap_or(procs).max(1);
    let mut ok = save_targets(dir, targets).is_ok();
    let mut kids = vec![];
    match (ok, std::env::current_exe()) {
        (true, Ok(exe)) => {
            for i in 0..n {
                match std::process::Command::new(&exe)
                    .arg(if run.quick() { "quick" } else { "thorough" })
                    .env(env_key, format!("{i}/{n}"))
                    .env("VERIF_SHARD_DIR", dir)
                    .stdout(std::process::Stdio::null())
                    .spawn()
                {
                    Ok(c) => kids.push(c),
                    Err(_) => ok = false,
                }
            }
        }
        _ => ok = false,
    }
    for mut k in kids {
        match k.wait() {
            Ok(st) if st.success() => {}
            _ => ok = false,
        }
    }
    if ok {
        for i in 0..n {
            let parsed: Option<WorkerOut> = std::fs::read_to_string(format!("{dir}/out-{i}.json")).ok().and_then(|t| serde_json::from_str(&t).ok());
            let Some(w) = parsed else {
                ok = false;
                break;
            };
            let mut fails: std::collections::HashMap<u32, (String, String)> = w.fails.into_iter().map(|(k, s, t)| (k, (s, t))).collect();
            for (k, nt, ids) in w.recs {
                let Some(c) = cases.get(k as usize) else {
                    ok = false;
                    continue;
                };
                let classes = ids.iter().filter_map(|i| w.class_names.get(*i as usize).cloned()).collect();
                let res = match fails.remove(&k) {
                    Some((s, t)) => Err(Fail::new(s, t)),
                    None => Ok(()),
                };
                table.insert(vh::digest(c), (nt, classes, res));
            }
        }
    }
    if !ok {
        run.inconclusive("worker processes failed; cases are evaluated in this process");
        table.clear();
    } else if table.len() != cases.iter().map(vh::digest).collect::<std::collections::HashSet<_>>().len() {
        run.inconclusive("worker processes did not return an outcome for every case");
    }
    let _ = std::fs::remove_dir_all(dir);
    table
}

/// Feed the pre-computed outcomes through the normal enumeration driver (regression / replay cases and
/// anything missing from the table are evaluated here with `judge`).
pub fn drive_table(run: &Run, check: &str, cases: Vec<Case>, table: Table, judge: &(dyn Fn(&Case) -> Outcome + Sync)) {
    let table = std::sync::Mutex::new(table);
    run.drive_enum_par(check, cases, 4, |c| {
        let pre = table.lock().unwrap().remove(&vh::digest(c));
        let (nt, classes, res) = match pre {
            Some(x) => x,
            None => {
                let o = judge(c);
                (o.nontrivial, o.classes, o.res)
            }
        };
        for cl in &classes {
            run.count(cl);
            if cl == LAYOUT_CHANGED {
                run.inconclusive(format!("{}: store layout differs from the one the case was recorded for", c.target));
            }
        }
        if nt {
            run.nontrivial(c);
        }
        res
    });
}

fn work_dir() -> String {
    vh::core::verif_root().join("work/C02").to_string_lossy().to_string()
}
const WORKER_ENV: &str = "VERIF_C02_WORKER";

fn all_cases(run: &Run, targets: &Targets) -> Vec<Case> {
    let mut cases = vec![];
    for t in targets.values() {
        cases.extend(cases_for(t, run, !run.quick(), 4000));
    }
    cases
}

fn main() {
    vh::quiet_panics();
    let run = Run::from_args("C02", "exploration");
    let selftest = std::env::var("VERIF_SELFTEST").map(|v| v == "1").unwrap_or(false);
    if let Ok(spec) = std::env::var(WORKER_ENV) {
        worker_main(&run, &work_dir(), &spec, &all_cases, &|t, c| judge(t, selftest, c));
    }
    run.set_rule("cases = (signed store, mutation). Stores: single v2 manifest (CBOR, JSON and embedded-file assertions, ed25519), ingredient chain D<-B<-A plus two components (ed25519/ps256/es256, v1 and v2 claims), update manifest with a redaction, Brotli-compressed box-hashed manifest, v1 claim with a data box (es256), plain v1 ps256; each embedded in a JPEG and as sidecar. Mutations: single bit flips (quick: every byte of box headers, description boxes, COSE framing/signature and claim CBOR, a quarter of COSE protected, seeded sample of the rest; thorough: every bit of every byte) and JUMBF structure edits (sibling swap, duplicate, delete, cross-manifest copy, label character, UUID byte, toggle bits, length field +-n with/without fixed parents, XLBox header, LBox=0, inserted free/unknown/cbor/json boxes). Non-trivial = the changed span touches bytes that a hash or the signature commits to (claim CBOR, assertion/databox/credential content, COSE protected/signature, description label/uuid/salt, compressed payload).");
    run.assume("the original stores are produced by the SDK's own Builder and read back as Trusted with the fixture trust anchors");
    run.assume("two reads of identical bytes give identical reports apart from validation_time and the listing order of validation status entries / ingredient deltas (checked once per store)");
    run.assume("re-embedding a same-length store through jumbf_io::save_jumbf_to_memory changes only the store bytes of the JPEG (checked once per store)");
    run.assume("a read that panics is counted as a failed read (robustness is judged by other properties)");
    run.assume("the payload of a compressed (brob) manifest box is opaque to the harness (no Brotli decoder available): flips inside it are judged by the three-way rule only");

    let quick_targets: Vec<(&'static str, Mode)> = vec![
        ("single", Mode::Embedded),
        ("chain", Mode::Sidecar),
        ("redact", Mode::Embedded),
        ("v1box", Mode::Sidecar),
        ("compressed", Mode::Embedded),
    ];
    let all_targets: Vec<(&'static str, Mode)> = KINDS.iter().flat_map(|k| [(*k, Mode::Embedded), (*k, Mode::Sidecar)]).collect();
    let wanted = if run.replay.is_some() || !run.quick() { all_targets } else { quick_targets };
    let mut targets: Targets = BTreeMap::new();
    for (k, m) in wanted {
        match vh::catch(|| build_target(k, m)) {
            Ok(Ok(t)) => {
                run.extra(
                    &format!("store:{}", t.name),
                    json!({"bytes": t.store.len(), "boxes": t.boxes.len(), "manifests": t.boxes.iter().filter(|b| b.depth == 1 && b.is(&jw::T_JUMB)).count(), "layout": t.layout}),
                );
                targets.insert(t.name.clone(), t);
            }
            Ok(Err(e)) => run.inconclusive(format!("cannot build store {k}/{m:?}: {e}")),
            Err(p) => run.inconclusive(format!("building store {k}/{m:?} panicked: {p}")),
        }
    }
    if let Ok(d) = std::env::var("VERIF_DUMP") {
        if let Some(t) = targets.get(&d) {
            for b in &t.boxes {
                let pay = b.payload();
                let show = &t.store[pay.start..pay.end.min(pay.start + 48)];
                eprintln!("{:6} {:2} {:6} {} {} {}", b.start, b.header_len, b.len, b.type_str(), b.path, if b.is(&jw::T_JUMB) { String::new() } else { hex::encode(show) });
            }
        }
    }
    let cases = all_cases(&run, &targets);
    for t in targets.values() {
        run.count_n(&format!("cases:{}", t.name), cases.iter().filter(|c| c.target == t.name).count() as u64);
    }
    let table = if run.replay.is_none() { evaluate_sharded(&run, &work_dir(), WORKER_ENV, run.scale(8, 16), &targets, &cases) } else { Default::default() };
    drive_table(&run, "store_mutation", cases, table, &|c| judge(&targets, selftest, c));
    if !run.quick() {
        // every bit of every byte of the listed stores was flipped
        run.set_exhaustive(true);
    }
    run.finish();
}
