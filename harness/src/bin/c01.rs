//! C01 — tamper evidence: signed asset content cannot change without detection.
//!
//! Metamorphic oracle over (signed asset, byte mutation):
//!   read(mutated) is Err, or Invalid, or (Valid/Trusted AND the report equals the original report AND every byte
//!   the mutation touches lies inside the ranges that the *signed hard-binding assertion itself* declares excluded).
//! The excluded ranges E are computed by the harness from the assertion JSON of the original read
//! (data hash: `exclusions[start,length]`; box hash: the manifest container located by the independent walker;
//! BMFF hash: top-level boxes named by the exclusion xpaths, located by an own box walker; update manifests: the
//! binding of the parent manifest, since the update manifest carries none).

use std::collections::BTreeMap;

use c2pa::{BuilderIntent, DigitalSourceType};

use serde::{Deserialize, Serialize};
use serde_json::{json, Value};
use vh::{sdk, CaseResult, Fail, Run};

#[derive(Clone, Debug, Serialize, Deserialize, PartialEq, Eq, Hash)]
enum Mutation {
    Flip { pos: usize, bit: u8 },
    Set { pos: usize, val: u8 },
    Insert { pos: usize, bytes: Vec<u8> },
    Delete { pos: usize, len: usize },
    Truncate { pos: usize },
    Append { bytes: Vec<u8> },
}

fn apply(b: &[u8], m: &Mutation) -> Vec<u8> {
    let mut v = b.to_vec();
    match m {
        Mutation::Flip { pos, bit } => {
            if *pos < v.len() {
                v[*pos] ^= 1 << (bit % 8);
            }
        }
        Mutation::Set { pos, val } => {
            if *pos < v.len() {
                v[*pos] = *val;
            }
        }
        Mutation::Insert { pos, bytes } => {
            let p = (*pos).min(v.len());
            v.splice(p..p, bytes.iter().copied());
        }
        Mutation::Delete { pos, len } => {
            let p = (*pos).min(v.len());
            let e = (p + *len).min(v.len());
            v.drain(p..e);
        }
        Mutation::Truncate { pos } => v.truncate(*pos),
        Mutation::Append { bytes } => v.extend_from_slice(bytes),
    }
    v
}

/// Span [start, end) of the ORIGINAL bytes that the mutation touches (for inserts: the insertion point as an
/// empty span whose both neighbours must be inside E; for truncate/append: the tail).
fn touched(m: &Mutation, len: usize) -> (usize, usize) {
    match m {
        Mutation::Flip { pos, .. } | Mutation::Set { pos, .. } => (*pos, pos + 1),
        Mutation::Insert { pos, .. } => (*pos, *pos),
        Mutation::Delete { pos, len: l } => (*pos, (pos + l).min(len)),
        Mutation::Truncate { pos } => (*pos, len),
        Mutation::Append { .. } => (len, len),
    }
}

#[derive(Clone, Debug, Serialize, Deserialize, PartialEq, Eq, Hash)]
struct AssetSpec {
    label: String,
    format: String,
    /// fixture file name, or "synth:<kind>:<seed>"
    source: String,
    /// "data" | "box" | "bmff" | "bmff-merkle"
    binding: String,
    update: bool,
    claim_v: u8,
}

struct Prepared {
    spec: AssetSpec,
    bytes: Vec<u8>,
    report: Value,
    verdict: sdk::Verdict,
    /// excluded ranges [start,end) declared by the signed hard binding
    excluded: Vec<(usize, usize)>,
}

#[derive(Clone, Debug, Serialize, Deserialize, PartialEq, Eq, Hash)]
struct Case {
    asset: AssetSpec,
    mutation: Mutation,
}

fn settings_for(spec: &AssetSpec) -> Value {
    let mut st = sdk::base_settings(true);
    if spec.binding == "box" {
        sdk::merge(&mut st, &json!({"core": {"prefer_compress_manifests": true}}));
    }
    if spec.binding == "bmff-merkle" {
        sdk::merge(&mut st, &json!({"core": {"merkle_tree_chunk_size_in_kb": 1}}));
    }
    st
}

fn source_bytes(spec: &AssetSpec) -> Vec<u8> {
    if let Some(rest) = spec.source.strip_prefix("synth:") {
        let mut it = rest.split(':');
        let kind = it.next().unwrap_or("jpeg");
        let seed: u64 = it.next().and_then(|s| s.parse().ok()).unwrap_or(0);
        let mut rng = vh::rng::SplitMix64::new(seed);
        return synth_bytes(kind, &mut rng);
    }
    sdk::fixture(&spec.source)
}

// The container toolkit is optional at build time of this check: resolved through a tiny shim so that the check
// degrades to fixtures when the toolkit is absent.
fn synth_bytes(kind: &str, rng: &mut vh::rng::SplitMix64) -> Vec<u8> {
    vh::assets::synth(kind, rng, 1500).bytes
}

fn manifest_spans(format_label: &str, bytes: &[u8]) -> Result<Vec<(usize, usize)>, String> {
    vh::walk::manifest_spans(format_label, bytes)
}

fn sign_asset(spec: &AssetSpec) -> Result<Vec<u8>, String> {
    let src = source_bytes(spec);
    let mut def = sdk::simple_definition(&format!("c01 {}", spec.label));
    def["claim_version"] = json!(spec.claim_v);
    if spec.claim_v == 1 {
        def["claim_generator"] = json!("verif-harness/0.1");
    }
    let intent = if spec.claim_v == 1 { None } else { Some(BuilderIntent::Create(DigitalSourceType::Empty)) };
    let signer = sdk::signer("ed25519");
    let signed = sdk::sign_with(sdk::context_with(&settings_for(spec)), &def, intent, signer.as_ref(), &spec.format, &src)
        .map_err(|e| format!("sign: {e}"))?;
    if !spec.update {
        return Ok(signed);
    }
    // update manifest on top
    let def2 = json!({"title": "c01 update", "claim_generator_info": [{"name": "verif-harness", "version": "0.1"}],
        "assertions": [{"label": "org.verif.note", "data": {"note": "update"}}]});
    sdk::sign_with(sdk::context_with(&settings_for(spec)), &def2, Some(BuilderIntent::Update), signer.as_ref(), &spec.format, &signed)
        .map_err(|e| format!("update sign: {e}"))
}

/// Top-level BMFF boxes: (type, start, end).
fn bmff_top_boxes(b: &[u8]) -> Vec<(String, usize, usize)> {
    let mut out = vec![];
    let mut p = 0usize;
    while p + 8 <= b.len() {
        let sz32 = u32::from_be_bytes([b[p], b[p + 1], b[p + 2], b[p + 3]]) as u64;
        let ty = String::from_utf8_lossy(&b[p + 4..p + 8]).to_string();
        let size = if sz32 == 1 {
            if p + 16 > b.len() {
                break;
            }
            u64::from_be_bytes(b[p + 8..p + 16].try_into().unwrap())
        } else if sz32 == 0 {
            (b.len() - p) as u64
        } else {
            sz32
        };
        if size < 8 || p as u64 + size > b.len() as u64 {
            break;
        }
        out.push((ty, p, p + size as usize));
        p += size as usize;
    }
    out
}

/// The hard-binding assertion governing the asset: of the active manifest, or (update manifests) of the nearest
/// ancestor reached through parentOf ingredients.
fn binding_assertion(detailed: &Value, active: &str) -> Option<(String, Value)> {
    let mut label = active.to_string();
    for _ in 0..8 {
        let m = &detailed["manifests"][&label];
        let store = m["assertion_store"].as_object()?;
        for (k, v) in store {
            if k.starts_with("c2pa.hash.") {
                return Some((k.clone(), v.clone()));
            }
        }
        // follow the parentOf ingredient
        let mut next = None;
        for (k, v) in store {
            if k.starts_with("c2pa.ingredient") && v["relationship"] == "parentOf" {
                let url = v["activeManifest"]["url"].as_str().or_else(|| v["c2pa_manifest"]["url"].as_str())?;
                // self#jumbf=/c2pa/<label>
                next = url.rsplit('/').next().map(|s| s.to_string());
            }
        }
        label = next?;
    }
    None
}

fn excluded_ranges(p_bytes: &[u8], spec: &AssetSpec, detailed: &Value, active: &str) -> Result<Vec<(usize, usize)>, String> {
    let (label, a) = binding_assertion(detailed, active).ok_or("no hard binding assertion found")?;
    if spec.update && !label.starts_with("c2pa.hash.bmff") {
        // the parent's declared range predates the update manifest; the binding is verified against the
        // current manifest container, which the independent walker locates
        let spans = manifest_spans(&spec.format, p_bytes)?;
        return Ok(spans.into_iter().map(|(s, l)| (s, s + l)).collect());
    }
    if label.starts_with("c2pa.hash.data") {
        let mut v = vec![];
        for e in a["exclusions"].as_array().cloned().unwrap_or_default() {
            let s = e["start"].as_u64().ok_or("exclusion start")? as usize;
            let l = e["length"].as_u64().ok_or("exclusion length")? as usize;
            v.push((s, s + l));
        }
        Ok(v)
    } else if label.starts_with("c2pa.hash.boxes") {
        // E = the box the assertion names C2PA (excluded), located independently
        let has_c2pa = a["boxes"].as_array().map(|b| b.iter().any(|x| x["names"].as_array().map(|n| n.iter().any(|s| s == "C2PA")).unwrap_or(false))).unwrap_or(false);
        if !has_c2pa {
            return Ok(vec![]);
        }
        let spans = manifest_spans(&spec.format, p_bytes)?;
        Ok(spans.into_iter().map(|(s, l)| (s, s + l)).collect())
    } else if label.starts_with("c2pa.hash.bmff") {
        // every top-level box whose type is the first component of an exclusion xpath is treated as "declared
        // excluded" (an over-approximation of E = an under-approximation of the protected set: sound)
        let mut first: Vec<String> = vec![];
        for e in a["exclusions"].as_array().cloned().unwrap_or_default() {
            if let Some(x) = e["xpath"].as_str() {
                if let Some(c) = x.trim_start_matches('/').split('/').next() {
                    first.push(c.to_string());
                }
            }
        }
        let merkle = a.get("merkle").map(|m| !m.is_null()).unwrap_or(false);
        let mut v = vec![];
        for (ty, s, e) in bmff_top_boxes(p_bytes) {
            // Merkle-covered mdat is excluded from the flat hash but covered by the tree: NOT in E.
            if first.contains(&ty) && !(ty == "mdat" && merkle) {
                v.push((s, e));
            }
        }
        Ok(v)
    } else {
        Err(format!("unknown binding {label}"))
    }
}

fn prepare(spec: &AssetSpec) -> Result<Prepared, String> {
    let bytes = sign_asset(spec)?;
    let r = sdk::read(&spec.format, &bytes).map_err(|e| format!("read of signed asset: {e}"))?;
    if !sdk::is_valid_or_trusted(&r) {
        return Err(format!("signed asset is not Valid: {:?}", sdk::failure_codes(&r)));
    }
    let detailed: Value = serde_json::from_str(&r.detailed_json()).map_err(|e| e.to_string())?;
    let active = r.active_label().ok_or("no active label")?.to_string();
    let excluded = excluded_ranges(&bytes, spec, &detailed, &active)?;
    Ok(Prepared { spec: spec.clone(), report: sdk::report_same_bytes(&r), verdict: sdk::verdict(&r), bytes, excluded })
}

fn first_diff(a: &Value, b: &Value, path: &str) -> String {
    match (a, b) {
        (Value::Object(x), Value::Object(y)) => {
            for (k, v) in x {
                match y.get(k) {
                    None => return format!("{path}/{k}: missing after mutation"),
                    Some(w) if w != v => return first_diff(v, w, &format!("{path}/{k}")),
                    _ => {}
                }
            }
            for k in y.keys() {
                if !x.contains_key(k) {
                    return format!("{path}/{k}: only after mutation");
                }
            }
            "objects equal".into()
        }
        (Value::Array(x), Value::Array(y)) => {
            if x.len() != y.len() {
                return format!("{path}: array length {} vs {}", x.len(), y.len());
            }
            for (i, (v, w)) in x.iter().zip(y).enumerate() {
                if v != w {
                    return first_diff(v, w, &format!("{path}/{i}"));
                }
            }
            "arrays equal".into()
        }
        _ => {
            let (sa, sb) = (a.to_string(), b.to_string());
            format!("{path}: {} vs {}", &sa[..sa.len().min(120)], &sb[..sb.len().min(120)])
        }
    }
}

fn inside(e: &[(usize, usize)], s: usize, t: usize) -> bool {
    if s == t {
        // insertion point: strictly inside one excluded range
        return e.iter().any(|(a, b)| *a < s && s < *b);
    }
    e.iter().any(|(a, b)| *a <= s && t <= *b)
}

fn judge(run: &Run, p: &Prepared, m: &Mutation) -> CaseResult {
    let mutated = apply(&p.bytes, m);
    if mutated == p.bytes {
        run.count("noop_mutation");
        return Ok(());
    }
    let (s, t) = touched(m, p.bytes.len());
    let in_e = inside(&p.excluded, s, t);
    let mclass = match m {
        Mutation::Flip { .. } => "flip",
        Mutation::Set { .. } => "set",
        Mutation::Insert { .. } => "insert",
        Mutation::Delete { .. } => "delete",
        Mutation::Truncate { .. } => "truncate",
        Mutation::Append { .. } => "append",
    };
    run.count(&format!("{}:{}:{}", p.spec.label, mclass, if in_e { "inE" } else { "protected" }));
    if !in_e {
        run.nontrivial(&(p.spec.label.clone(), m.clone()));
    }
    let fmt = p.spec.format.clone();
    let res = vh::catch(|| sdk::read(&fmt, &mutated));
    let r = match res {
        Err(pm) => {
            // a panic on tampered input is C10's business; for C01 it is "not reported Valid"
            run.count(&format!("panic:{}", vh::core::panic_site(&pm)));
            return Ok(());
        }
        Ok(Err(_)) => {
            run.count("outcome_err");
            return Ok(());
        }
        Ok(Ok(r)) => r,
    };
    if !sdk::is_valid_or_trusted(&r) {
        run.count("outcome_invalid");
        return Ok(());
    }
    run.count("outcome_valid");
    if !in_e {
        let what = format!(
            "{mclass} touching original bytes [{s},{t}) of {} ({} bytes, binding {}, excluded ranges {:?}) is outside the declared exclusions but the asset still reads {}",
            p.spec.label, p.bytes.len(), p.spec.binding, p.excluded, sdk::state_name(r.validation_state())
        );
        // Box hash: one known weakness (bytes that no entry of the SDK's box map covers: trailing bytes, stray bytes
        // between JPEG segments) must not mask anything else, so the class is derived carefully:
        //  * only ADDED bytes (insert/append) that the map of the mutated file leaves uncovered, or original bytes
        //    behind the last box of the original map, fall into the known class;
        //  * original bytes in a hole of the original map get a class named after the walker's unit at that place;
        //  * everything else is protected content.
        let fmt_label = p.spec.label.split('-').next().unwrap_or("").to_string();
        let mut sig = format!("C01:protected-content-changed-but-valid:{}", p.spec.binding);
        if p.spec.binding == "box" {
            let cover = |bytes: &[u8]| -> Option<(Vec<bool>, usize)> {
                let map = c2pa::verif_hooks::box_map(&p.spec.format, bytes).ok()?;
                let mut cov = vec![false; bytes.len()];
                let mut last_end = 0usize;
                for (_, st, ln, _) in &map {
                    let (a, b) = ((*st as usize).min(bytes.len()), ((*st + *ln) as usize).min(bytes.len()));
                    cov[a..b].iter_mut().for_each(|c| *c = true);
                    last_end = last_end.max(b);
                }
                Some((cov, last_end))
            };
            let added_only = matches!(m, Mutation::Insert { .. } | Mutation::Append { .. });
            if added_only {
                if let Some((cov, _)) = cover(&mutated) {
                    if cov.iter().any(|c| !*c) {
                        sig = format!("C01:boxhash-uncovered-bytes:{fmt_label}");
                    }
                }
            } else if let Some((cov, last_end)) = cover(&p.bytes) {
                if s >= last_end {
                    sig = format!("C01:boxhash-uncovered-bytes:{fmt_label}");
                } else if (s..t.min(cov.len())).all(|i| !cov[i]) {
                    let unit = vh::walk::walk(&p.spec.format, &p.bytes)
                        .ok()
                        .and_then(|us| us.into_iter().find(|u| u.start <= s && s < u.start + u.len).map(|u| u.kind))
                        .unwrap_or_else(|| "unknown".into());
                    sig = format!("C01:boxhash-hole-in-box-map:{fmt_label}:{unit}");
                }
            }
        }
        return Err(Fail::new(sig, what));
    }
    let rep = sdk::report_same_bytes(&r);
    if rep != p.report || sdk::verdict(&r) != p.verdict {
        // Roll-back: the edit made the reader lose the latest (update) manifest, and the previous manifest of
        // the same store is reported as the active one. Inherent to appended update manifests; own class.
        let (a0, a1) = (p.report["json"]["active_manifest"].as_str(), rep["json"]["active_manifest"].as_str());
        let rolled_back = a0 != a1 && a1.map(|l| p.report["json"]["manifests"].get(l).is_some()).unwrap_or(false);
        let sig = if rolled_back {
            format!("C01:rollback-to-previous-manifest-still-valid:{}", p.spec.binding)
        } else {
            format!("C01:valid-with-different-report:{}", p.spec.binding)
        };
        return Err(Fail::new(
            sig,
            format!(
                "{mclass} at [{s},{t}) inside the exclusions of {} leaves the asset Valid but the reported manifest differs (first difference: {})",
                p.spec.label,
                first_diff(&p.report, &rep, "")
            ),
        ));
    }
    Ok(())
}

fn specs(run: &Run) -> Vec<AssetSpec> {
    let mut v = vec![];
    let mk = |label: &str, format: &str, source: &str, binding: &str, update: bool, claim_v: u8| AssetSpec {
        label: label.into(),
        format: format.into(),
        source: source.into(),
        binding: binding.into(),
        update,
        claim_v,
    };
    // fixtures (data hash / bmff hash by format)
    for (label, fmt, fx) in sdk::writable_fixtures() {
        if fx.is_empty() {
            continue;
        }
        let big = std::fs::metadata(format!("{}/{}", sdk::FIXTURES, fx)).map(|m| m.len()).unwrap_or(0) > 120_000;
        if big && run.quick() {
            continue;
        }
        let fx = if label == "tiff" { "test.tiff" } else { fx };
        let binding = if ["mp4", "avif", "heic", "m4a"].contains(&label) { "bmff" } else { "data" };
        v.push(mk(&format!("{label}-{binding}-fixture"), fmt, fx, binding, false, 2));
    }
    // box hash (compressed manifests) on the box-hash capable formats
    for (label, fmt, fx) in [("jpeg", "image/jpeg", "no_manifest.jpg"), ("png", "image/png", "libpng-test.png"), ("gif", "image/gif", "sample1.gif"), ("jxl", "image/jxl", "sample1.jxl")] {
        if run.quick() && (label == "gif" || label == "jxl") {
            continue; // large fixtures: thorough only (synthesised gif/jxl cover box hash in quick)
        }
        v.push(mk(&format!("{label}-box-fixture"), fmt, fx, "box", false, 2));
    }
    // JPEG with restart intervals (DRI + RSTn) under box hash: the scan data behind each restart marker must be covered
    v.push(mk("jpeg-box-rst-fixture", "image/jpeg", "earth_apollo17.jpg", "box", false, 2));
    for k in 0..64u64 {
        let seed = (run.seed ^ 0x5151).wrapping_add(k);
        let d = vh::assets::synth("jpeg", &mut vh::rng::SplitMix64::new(seed), 1500);
        if d.desc.contains("restart") || d.desc.contains("rst") || d.desc.contains("RST") {
            v.push(mk("jpeg-box-rst-synth", "image/jpeg", &format!("synth:jpeg:{seed}"), "box", false, 2));
            break;
        }
    }
    // claim v1, update manifests, merkle
    v.push(mk("jpeg-data-v1", "image/jpeg", "no_manifest.jpg", "data", false, 1));
    v.push(mk("png-data-update", "image/png", "libpng-test.png", "data", true, 2));
    v.push(mk("jpeg-data-update", "image/jpeg", "no_manifest.jpg", "data", true, 2));
    if !run.quick() {
        v.push(mk("mp4-bmff-update", "video/mp4", "video1_no_manifest.mp4", "bmff", true, 2));
        v.push(mk("mp4-bmff-merkle", "video/mp4", "video1_no_manifest.mp4", "bmff-merkle", false, 2));
    }
    v.push(mk("avif-bmff-update", "image/avif", "sample1.avif", "bmff", true, 2));
    v.push(mk("mp4-bmff-merkle-synth", "video/mp4", &format!("synth:mp4:{}", run.seed ^ 77), "bmff-merkle", false, 2));
    v.push(mk("mp4-bmff-update-synth", "video/mp4", &format!("synth:mp4:{}", run.seed ^ 78), "bmff", true, 2));
    // synthesised small assets (every kind the toolkit offers), two seeds each in thorough
    let seeds: &[u64] = if run.quick() { &[1] } else { &[1, 2] };
    for kind in vh::assets::KINDS {
        for s in seeds {
            let d = vh::assets::synth_default(kind);
            let binding = if ["mp4", "mov", "heic", "avif", "m4a"].contains(kind) { "bmff" } else { "data" };
            v.push(mk(&format!("{kind}-{binding}-synth{s}"), d.format, &format!("synth:{kind}:{}", run.seed ^ s), binding, false, 2));
            if ["jpeg", "png", "gif", "jxl"].contains(kind) {
                v.push(mk(&format!("{kind}-box-synth{s}"), d.format, &format!("synth:{kind}:{}", run.seed ^ s), "box", false, 2));
            }
        }
    }
    v
}

fn mutations_for(p: &Prepared, rng: &mut vh::rng::SplitMix64, payload_samples: usize, every_byte: bool) -> Vec<Mutation> {
    let len = p.bytes.len();
    let mut pos: Vec<usize> = vec![];
    if every_byte && len <= 8_000 {
        pos.extend(0..len);
    } else {
        for k in 0..24.min(len) {
            pos.push(k);
            pos.push(len - 1 - k);
        }
        for (a, b) in &p.excluded {
            for d in 0..4usize {
                pos.push(a.saturating_sub(d + 1));
                pos.push((a + d).min(len - 1));
                pos.push(b.saturating_sub(d + 1).min(len - 1));
                pos.push((b + d).min(len - 1));
            }
        }
        if p.spec.binding.starts_with("bmff") {
            for (_, s, e) in bmff_top_boxes(&p.bytes) {
                for d in 0..12usize {
                    pos.push((s + d).min(len - 1));
                }
                pos.push(e - 1);
            }
        }
        for _ in 0..payload_samples {
            pos.push(rng.usize(len));
        }
        // a few inside E too (report-equality half)
        for (a, b) in &p.excluded {
            for _ in 0..(payload_samples / 8).max(4) {
                if b > a {
                    pos.push(a + rng.usize(b - a));
                }
            }
        }
    }
    pos.sort();
    pos.dedup();
    let mut out = vec![];
    for q in pos {
        out.push(Mutation::Flip { pos: q, bit: (rng.next_u64() % 8) as u8 });
        let cur = p.bytes[q];
        if !every_byte || q % 3 == 0 {
            out.push(Mutation::Set { pos: q, val: if cur == 0 { 0xFF } else { 0 } });
        }
        if !every_byte || q % 7 == 0 {
            out.push(Mutation::Insert { pos: q, bytes: vec![rng.next_u64() as u8] });
            out.push(Mutation::Delete { pos: q, len: 1 });
        }
    }
    // well-formed units inserted right before / after the manifest container (JPEG COM segment, PNG tEXt chunk,
    // GIF comment extension): the file stays parseable, so only the hard binding can notice them
    let fam = vh::walk::family(&p.spec.format).unwrap_or("");
    let unit: Option<Vec<u8>> = match fam {
        "jpeg" => Some(vec![0xFF, 0xFE, 0x00, 0x08, b'v', b'e', b'r', b'i', b'f', b'!']),
        "png" => {
            // tEXt chunk: keyword "vk", NUL, text "abc"
            let data: &[u8] = b"vk\0abc";
            let mut body = b"tEXt".to_vec();
            body.extend_from_slice(data);
            let mut c = (data.len() as u32).to_be_bytes().to_vec();
            c.extend_from_slice(&body);
            c.extend_from_slice(&vh::assets::crc32(&body).to_be_bytes());
            Some(c)
        }
        "gif" => Some(vec![0x21, 0xFE, 0x05, b'v', b'e', b'r', b'i', b'f', 0x00]),
        _ => None,
    };
    if let Some(u) = unit {
        if let Ok(spans) = manifest_spans(&p.spec.format, &p.bytes) {
            if let (Some(first), Some(last)) = (spans.first(), spans.last()) {
                out.push(Mutation::Insert { pos: first.0, bytes: u.clone() });
                out.push(Mutation::Insert { pos: last.0 + last.1, bytes: u.clone() });
                // twice the unit (longer insertion)
                let mut uu = u.clone();
                uu.extend_from_slice(&u);
                out.push(Mutation::Insert { pos: first.0, bytes: uu });
            }
        }
    }
    // structural tail edits
    for k in [1usize, 2, 8, 64] {
        if len > k {
            out.push(Mutation::Truncate { pos: len - k });
        }
        out.push(Mutation::Append { bytes: rng.bytes(k) });
    }
    out.push(Mutation::Append { bytes: vec![0] });
    out.push(Mutation::Truncate { pos: len / 2 });
    out
}

#[derive(Clone, Debug, Serialize, Deserialize, PartialEq, Eq, Hash)]
struct FragCase {
    rendition: String,
    /// usize::MAX = the init segment
    fragment: usize,
    /// 0: first mdat payload byte, 1: middle, 2: last
    place: u8,
    bit: u8,
}

/// Fragmented BMFF (DASH): sign a rendition of the repository's BigBuckBunny fixture with
/// `Builder::sign_fragmented_files`, then flip one bit of the media payload (mdat) of each single fragment in turn
/// and validate the whole rendition with `Reader::with_fragmented_files`: it must never stay Valid/Trusted.
fn fragmented(run: &Run) {
    use std::path::PathBuf;
    let renditions: &[&str] = if run.quick() { &["bunny_89283bps"] } else { &["bunny_89283bps", "bunny_595491bps", "bunny_791182bps"] };
    let work = PathBuf::from(format!("/verif/work/C01/frag-{}", std::process::id()));
    let _ = std::fs::remove_dir_all(&work);
    for rend in renditions {
        let out = work.join(rend);
        let _ = std::fs::create_dir_all(&work);
        let init = PathBuf::from(format!("{}/bunny/{rend}/BigBuckBunny_2s_init.mp4", sdk::FIXTURES));
        let signed = vh::catch(|| {
            let mut b = c2pa::Builder::from_context(sdk::context()).with_definition(sdk::simple_definition("c01 fragmented").to_string())?;
            b.set_intent(BuilderIntent::Create(DigitalSourceType::Empty));
            b.sign_fragmented_files(sdk::signer("ed25519").as_ref(), &init, &PathBuf::from("BigBuckBunny_2s*.m4s"), &work)
        });
        if !matches!(signed, Ok(Ok(_))) {
            run.note(format!("generator_rejected fragmented {rend}: {:?}", signed.map(|r| r.map(|_| ()).map_err(|e| e.to_string()))));
            run.count("generator_rejected");
            continue;
        }
        let out_init = out.join("BigBuckBunny_2s_init.mp4");
        let mut frags: Vec<PathBuf> = std::fs::read_dir(&out)
            .map(|rd| rd.filter_map(|e| e.ok()).map(|e| e.path()).filter(|p| p.extension().map(|x| x == "m4s").unwrap_or(false)).collect())
            .unwrap_or_default();
        frags.sort_by_key(|p| {
            p.file_stem().and_then(|s| s.to_str()).and_then(|s| s.strip_prefix("BigBuckBunny_2s")).and_then(|s| s.parse::<u32>().ok()).unwrap_or(u32::MAX)
        });
        let read_state = |init: &PathBuf, frags: &Vec<PathBuf>| -> Option<bool> {
            match vh::catch(|| c2pa::Reader::from_context(sdk::context()).with_fragmented_files(init, frags)) {
                Ok(Ok(r)) => Some(sdk::is_valid_or_trusted(&r)),
                _ => None,
            }
        };
        if read_state(&out_init, &frags) != Some(true) || frags.len() < 3 {
            run.note(format!("generator_rejected fragmented {rend}: untouched rendition is not Valid"));
            run.count("generator_rejected");
            continue;
        }
        let mut cases = vec![];
        for f in 0..frags.len() {
            for place in 0..3u8 {
                cases.push(FragCase { rendition: rend.to_string(), fragment: f, place, bit: ((f as u8) * 3 + place) % 8 });
            }
        }
        run.drive_enum("fragmented", cases, |c| {
            let path = if c.fragment == usize::MAX { out_init.clone() } else { frags[c.fragment.min(frags.len() - 1)].clone() };
            let orig = std::fs::read(&path).map_err(|e| Fail::new("C01:harness-io", e.to_string()))?;
            let mdat = bmff_top_boxes(&orig).into_iter().find(|(t, _, _)| t == "mdat");
            let Some((_, ms, me)) = mdat else {
                run.count("fragment_without_mdat");
                return Ok(());
            };
            let (ps, pe) = (ms + 8, me);
            if pe <= ps {
                return Ok(());
            }
            let pos = match c.place {
                0 => ps,
                1 => ps + (pe - ps) / 2,
                _ => pe - 1,
            };
            let mut m = orig.clone();
            m[pos] ^= 1 << (c.bit % 8);
            std::fs::write(&path, &m).map_err(|e| Fail::new("C01:harness-io", e.to_string()))?;
            let st = read_state(&out_init, &frags);
            let _ = std::fs::write(&path, &orig);
            run.count(&format!("fragmented:{}", match st { Some(true) => "valid", Some(false) => "invalid", None => "err" }));
            run.nontrivial(c);
            if st == Some(true) {
                return Err(Fail::new(
                    "C01:protected-content-changed-but-valid:bmff-fragmented",
                    format!("{}: bit flipped at byte {pos} (mdat payload) of fragment #{} ({}) and the rendition still validates", c.rendition, c.fragment, path.display()),
                ));
            }
            Ok(())
        });
    }
    let _ = std::fs::remove_dir_all(&work);
}

fn main() {
    vh::quiet_panics();
    let run = Run::from_args("C01", "exploration");
    run.set_rule("case = (signed asset, byte mutation). Signed assets: every writable container (repository fixtures + synthesised small assets) x binding {data hash, box hash via core.prefer_compress_manifests, BMFF hash, BMFF Merkle, update manifest on top} x claim v1/v2, ed25519. Mutations: flip/set/insert/delete at every structural boundary (+-4 around each declared exclusion, file head/tail, BMFF box headers) and at sampled payload positions (quick) or at every byte of small assets (thorough), truncations and appends. Non-trivial = the mutation touches at least one byte outside the exclusions declared by the signed hard binding (protected content).");
    run.assume("the excluded ranges are taken from the hard-binding assertion of the ORIGINAL read (signed data), box-hash C2PA box located by the independent walker, BMFF exclusions over-approximated to whole top-level boxes named by the exclusion xpaths (so only certainly-protected bytes are judged strictly)");
    run.assume("Err, Invalid and panics all count as 'not reported Valid' here (panics are C10's subject)");

    let all_specs = specs(&run);
    // replay: rebuild exactly the asset of the case
    if let Some((check, case)) = &run.replay {
        if check == "fragmented" {
            fragmented(&run);
        } else if let Ok(c) = serde_json::from_value::<Case>(case.clone()) {
            match prepare(&c.asset) {
                Ok(p) => run.drive_enum("mutations", vec![c.clone()], |c| judge(&run, &p, &c.mutation)),
                Err(e) => run.inconclusive(format!("replay asset cannot be prepared: {e}")),
            }
        }
        run.finish();
    }

    let mut prepared: Vec<Prepared> = vec![];
    let mut rejected = 0;
    for s in &all_specs {
        let mut s = s.clone();
        // Merkle + synthesised MP4: some generated layouts (two mdat boxes, mdat with size 0) do not survive
        // signing with a Merkle tree (routed to C03); walk the seed until the signed asset is Valid.
        if s.label == "mp4-bmff-merkle-synth" {
            for k in 0..24u64 {
                let cand = AssetSpec { source: format!("synth:mp4:{}", (run.seed ^ 77).wrapping_add(k)), ..s.clone() };
                if matches!(vh::catch(|| prepare(&cand)), Ok(Ok(_))) {
                    s = cand;
                    break;
                }
                run.count("merkle_synth_seed_skipped");
            }
        }
        let s = &s;
        match vh::catch(|| prepare(s)) {
            Ok(Ok(p)) => prepared.push(p),
            Ok(Err(e)) => {
                rejected += 1;
                run.note(format!("generator_rejected {}: {e}", s.label));
                run.count("generator_rejected");
            }
            Err(pm) => {
                rejected += 1;
                run.note(format!("generator_rejected {} (panic {pm})", s.label));
                run.count("generator_rejected");
            }
        }
    }
    run.extra("assets_prepared", json!(prepared.len()));
    run.extra("assets_rejected", json!(rejected));
    if prepared.len() < 10 || rejected * 5 > all_specs.len() {
        run.inconclusive(format!("only {} of {} assets could be prepared", prepared.len(), all_specs.len()));
    }
    let mut per_asset: BTreeMap<String, usize> = BTreeMap::new();
    let mut cases: Vec<(usize, Mutation)> = vec![];
    let mut rng = vh::rng::SplitMix64::new(run.seed ^ 0xC01);
    for (i, p) in prepared.iter().enumerate() {
        let small = p.bytes.len() <= 20_000;
        let ms = mutations_for(p, &mut rng, run.scale(if small { 500 } else { 150 }, 1500), !run.quick() && p.bytes.len() <= 8_000);
        per_asset.insert(p.spec.label.clone(), ms.len());
        cases.extend(ms.into_iter().map(|m| (i, m)));
    }
    run.extra("mutations_per_asset", json!(per_asset));
    let full: Vec<Case> = cases.into_iter().map(|(i, m)| Case { asset: prepared[i].spec.clone(), mutation: m }).collect();
    let index: BTreeMap<String, usize> = prepared.iter().enumerate().map(|(i, p)| (p.spec.label.clone(), i)).collect();
    run.drive_enum_par("mutations", full, 16, |c| {
        let p = &prepared[index[&c.asset.label]];
        judge(&run, p, &c.mutation)
    });
    fragmented(&run);

    run.finish();
}
