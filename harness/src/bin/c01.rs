//! C01 — tamper evidence: signed asset content cannot change without detection.
//!
//! Metamorphic oracle over (signed asset, byte mutation):
//!   read(mutated) is Err, or Invalid, or (Valid/Trusted AND the report equals the original report AND every byte
//!   the mutation touches lies inside the ranges that the *signed hard-binding assertion itself* declares excluded).
//! The excluded ranges E are computed by the harness from the assertion JSON of the original read
//! (data hash: `exclusions[start,length]`; box hash: the manifest container located by the independent walker;
//! BMFF hash: top-level boxes named by the exclusion xpaths, located by an own box walker; update manifests: the
//! binding of the parent manifest, since the update manifest carries none).

use std::collections::BTreeMap;

use c2pa::{BuilderIntent, DigitalSourceType};

use serde::{Deserialize, Serialize};
use serde_json::{json, Value};
use vh::{sdk, CaseResult, Fail, Run};

#[derive(Clone, Debug, Serialize, Deserialize, PartialEq, Eq, Hash)]
enum Mutation {
    Flip { pos: usize, bit: u8 },
    Set { pos: usize, val: u8 },
    Insert { pos: usize, bytes: Vec<u8> },
    Delete { pos: usize, len: usize },
    Truncate { pos: usize },
    Append { bytes: Vec<u8> },
}

fn apply(b: &[u8], m: &Mutation) -> Vec<u8> {
    let mut v = b.to_vec();
    match m {
        Mutation::Flip { pos, bit } => {
            if *pos < v.len() {
                v[*pos] ^= 1 << (bit % 8);
            }
        }
        Mutation::Set { pos, val } => {
            if *pos < v.len() {
                v[*pos] = *val;
            }
        }
        Mutation::Insert { pos, bytes } => {
            let p = (*pos).min(v.len());
            v.splice(p..p, bytes.iter().copied());
        }
        Mutation::Delete { pos, len } => {
            let p = (*pos).min(v.len());
            let e = (p + *len).min(v.len());
            v.drain(p..e);
        }
        Mutation::Truncate { pos } => v.truncate(*pos),
        Mutation::Append { bytes } => v.extend_from_slice(bytes),
    }
    v
}

/// Span [start, end) of the ORIGINAL bytes that the mutation touches (for inserts: the insertion point as an
/// empty span whose both neighbours must be inside E; for truncate/append: the tail).
fn touched(m: &Mutation, len: usize) -> (usize, usize) {
    match m {
        Mutation::Flip { pos, .. } | Mutation::Set { pos, .. } => (*pos, pos + 1),
        Mutation::Insert { pos, .. } => (*pos, *pos),
        Mutation::Delete { pos, len: l } => (*pos, (pos + l).min(len)),
        Mutation::Truncate { pos } => (*pos, len),
        Mutation::Append { .. } => (len, len),
    }
}

#[derive(Clone, Debug, Serialize, Deserialize, PartialEq, Eq, Hash)]
struct AssetSpec {
    label: String,
    format: String,
    /// fixture file name, or "synth:<kind>:<seed>"
    source: String,
    /// "data" | "box" | "bmff" | "bmff-merkle"
    binding: String,
    update: bool,
    claim_v: u8,
}

struct Prepared {
    spec: AssetSpec,
    bytes: Vec<u8>,
    report: Value,
    verdict: sdk::Verdict,
    /// excluded ranges [start,end) declared by the signed hard binding
    excluded: Vec<(usize, usize)>,
}

#[derive(Clone, Debug, Serialize, Deserialize, PartialEq, Eq, Hash)]
struct Case {
    asset: AssetSpec,
    mutation: Mutation,
}

fn settings_for(spec: &AssetSpec) -> Value {
    let mut st = sdk::base_settings(true);
    if spec.binding == "box" {
        sdk::merge(&mut st, &json!({"core": {"prefer_compress_manifests": true}}));
    }
    if spec.binding == "bmff-merkle" {
        sdk::merge(&mut st, &json!({"core": {"merkle_tree_chunk_size_in_kb": 1}}));
    }
    st
}

fn source_bytes(spec: &AssetSpec) -> Vec<u8> {
    if let Some(rest) = spec.source.strip_prefix("synth:") {
        let mut it = rest.split(':');
        let kind = it.next().unwrap_or("jpeg");
        let seed: u64 = it.next().and_then(|s| s.parse().ok()).unwrap_or(0);
        let mut rng = vh::rng::SplitMix64::new(seed);
        return synth_bytes(kind, &mut rng);
    }
    sdk::fixture(&spec.source)
}

// The container toolkit is optional at build time of this check: resolved through a tiny shim so that the check
// degrades to fixtures when the toolkit is absent.
fn synth_bytes(kind: &str, rng: &mut vh::rng::SplitMix64) -> Vec<u8> {
    vh::assets::synth(kind, rng, 1500).bytes
}

fn manifest_spans(format_label: &str, bytes: &[u8]) -> Result<Vec<(usize, usize)>, String> {
    vh::walk::manifest_spans(format_label, bytes)
}

fn sign_asset(spec: &AssetSpec) -> Result<Vec<u8>, String> {
    let src = source_bytes(spec);
    let mut def = sdk::simple_definition(&format!("c01 {}", spec.label));
    def["claim_version"] = json!(spec.claim_v);
    if spec.claim_v == 1 {
        def["claim_generator"] = json!("verif-harness/0.1");
    }
    let intent = if spec.claim_v == 1 { None } else { Some(BuilderIntent::Create(DigitalSourceType::Empty)) };
    let signer = sdk::signer("ed25519");
    let signed = sdk::sign_with(sdk::context_with(&settings_for(spec)), &def, intent, signer.as_ref(), &spec.format, &src)
        .map_err(|e| format!("sign: {e}"))?;
    if !spec.update {
        return Ok(signed);
    }
    // update manifest on top
    let def2 = json!({"title": "c01 update", "claim_generator_info": [{"name": "verif-harness", "version": "0.1"}],
        "assertions": [{"label": "org.verif.note", "data": {"note": "update"}}]});
    sdk::sign_with(sdk::context_with(&settings_for(spec)), &def2, Some(BuilderIntent::Update), signer.as_ref(), &spec.format, &signed)
        .map_err(|e| format!("update sign: {e}"))
}

/// Top-level BMFF boxes: (type, start, end).
fn bmff_top_boxes(b: &[u8]) -> Vec<(String, usize, usize)> {
    let mut out = vec![];
    let mut p = 0usize;
    while p + 8 <= b.len() {
        let sz32 = u32::from_be_bytes([b[p], b[p + 1], b[p + 2], b[p + 3]]) as u64;
        let ty = String::from_utf8_lossy(&b[p + 4..p + 8]).to_string();
        let size = if sz32 == 1 {
            if p + 16 > b.len() {
                break;
            }
            u64::from_be_bytes(b[p + 8..p + 16].try_into().unwrap())
        } else if sz32 == 0 {
            (b.len() - p) as u64
        } else {
            sz32
        };
        if size < 8 || p as u64 + size > b.len() as u64 {
            break;
        }
        out.push((ty, p, p + size as usize));
        p += size as usize;
    }
    out
}

/// The hard-binding assertion governing the asset: of the active manifest, or (update manifests) of the nearest
/// ancestor reached through parentOf ingredients.
fn binding_assertion(detailed: &Value, active: &str) -> Option<(String, Value)> {
    let mut label = active.to_string();
    for _ in 0..8 {
        let m = &detailed["manifests"][&label];
        let store = m["assertion_store"].as_object()?;
        for (k, v) in store {
            if k.starts_with("c2pa.hash.") {
                return Some((k.clone(), v.clone()));
            }
        }
        // follow the parentOf ingredient
        let mut next = None;
        for (k, v) in store {
            if k.starts_with("c2pa.ingredient") && v["relationship"] == "parentOf" {
                let url = v["activeManifest"]["url"].as_str().or_else(|| v["c2pa_manifest"]["url"].as_str())?;
                // self#jumbf=/c2pa/<label>
                next = url.rsplit('/').next().map(|s| s.to_string());
            }
        }
        label = next?;
    }
    None
}

fn excluded_ranges(p_bytes: &[u8], spec: &AssetSpec, detailed: &Value, active: &str) -> Result<Vec<(usize, usize)>, String> {
    let (label, a) = binding_assertion(detailed, active).ok_or("no hard binding assertion found")?;
    if spec.update && !label.starts_with("c2pa.hash.bmff") {
        // the parent's declared range predates the update manifest; the binding is verified against the
        // current manifest container, which the independent walker locates
        let spans = manifest_spans(&spec.format, p_bytes)?;
        return Ok(spans.into_iter().map(|(s, l)| (s, s + l)).collect());
    }
    if label.starts_with("c2pa.hash.data") {
        let mut v = vec![];
        for e in a["exclusions"].as_array().cloned().unwrap_or_default() {
            let s = e["start"].as_u64().ok_or("exclusion start")? as usize;
            let l = e["length"].as_u64().ok_or("exclusion length")? as usize;
            v.push((s, s + l));
        }
        Ok(v)
    } else if label.starts_with("c2pa.hash.boxes") {
        // E = the box the assertion names C2PA (excluded), located independently
        let has_c2pa = a["boxes"].as_array().map(|b| b.iter().any(|x| x["names"].as_array().map(|n| n.iter().any(|s| s == "C2PA")).unwrap_or(false))).unwrap_or(false);
        if !has_c2pa {
            return Ok(vec![]);
        }
        let spans = manifest_spans(&spec.format, p_bytes)?;
        Ok(spans.into_iter().map(|(s, l)| (s, s + l)).collect())
    } else if label.starts_with("c2pa.hash.bmff") {
        // every top-level box whose type is the first component of an exclusion xpath is treated as "declared
        // excluded" (an over-approximation of E = an under-approximation of the protected set: sound)
        let mut first: Vec<String> = vec![];
        for e in a["exclusions"].as_array().cloned().unwrap_or_default() {
            if let Some(x) = e["xpath"].as_str() {
                if let Some(c) = x.trim_start_matches('/').split('/').next() {
                    first.push(c.to_string());
                }
            }
        }
        let merkle = a.get("merkle").map(|m| !m.is_null()).unwrap_or(false);
        let mut v = vec![];
        for (ty, s, e) in bmff_top_boxes(p_bytes) {
            // Merkle-covered mdat is excluded from the flat hash but covered by the tree: NOT in E.
            if first.contains(&ty) && !(ty == "mdat" && merkle) {
                v.push((s, e));
            }
        }
        Ok(v)
    } else {
        Err(format!("unknown binding {label}"))
    }
}

fn prepare(spec: &AssetSpec) -> Result<Prepared, String> {
    let bytes = sign_asset(spec)?;
    let r = sdk::read(&spec.format, &bytes).map_err(|e| format!("read of signed asset: {e}"))?;
    if !sdk::is_valid_or_trusted(&r) {
        return Err(format!("signed asset is not Valid: {:?}", sdk::failure_codes(&r)));
    }
    let detailed: Value = serde_json::from_str(&r.detailed_json()).map_err(|e| e.to_string())?;
    let active = r.active_label().ok_or("no active label")?.to_string();
    let excluded = excluded_ranges(&bytes, spec, &detailed, &active)?;
    Ok(Prepared { spec: spec.clone(), report: sdk::report_same_bytes(&r), verdict: sdk::verdict(&r), bytes, excluded })
}

fn inside(e: &[(usize, usize)], s: usize, t: usize) -> bool {
    if s == t {
        // insertion point: strictly inside one excluded range
        return e.iter().any(|(a, b)| *a < s && s < *b);
    }
    e.iter().any(|(a, b)| *a <= s && t <= *b)
}

fn judge(run: &Run, p: &Prepared, m: &Mutation) -> CaseResult {
    let mutated = apply(&p.bytes, m);
    if mutated == p.bytes {
        run.count("noop_mutation");
        return Ok(());
    }
    let (s, t) = touched(m, p.bytes.len());
    let in_e = inside(&p.excluded, s, t);
    let mclass = match m {
        Mutation::Flip { .. } => "flip",
        Mutation::Set { .. } => "set",
        Mutation::Insert { .. } => "insert",
        Mutation::Delete { .. } => "delete",
        Mutation::Truncate { .. } => "truncate",
        Mutation::Append { .. } => "append",
    };
    run.count(&format!("{}:{}:{}", p.spec.label, mclass, if in_e { "inE" } else { "protected" }));
    if !in_e {
        run.nontrivial(&(p.spec.label.clone(), m.clone()));
    }
    let fmt = p.spec.format.clone();
    let res = vh::catch(|| sdk::read(&fmt, &mutated));
    let r = match res {
        Err(pm) => {
            // a panic on tampered input is C10's business; for C01 it is "not reported Valid"
            run.count(&format!("panic:{}", vh::core::panic_site(&pm)));
            return Ok(());
        }
        Ok(Err(_)) => {
            run.count("outcome_err");
            return Ok(());
        }
        Ok(Ok(r)) => r,
    };
    if !sdk::is_valid_or_trusted(&r) {
        run.count("outcome_invalid");
        return Ok(());
    }
    run.count("outcome_valid");
    if !in_e {
        let what = format!(
            "{mclass} touching original bytes [{s},{t}) of {} ({} bytes, binding {}, excluded ranges {:?}) is outside the declared exclusions but the asset still reads {}",
            p.spec.label, p.bytes.len(), p.spec.binding, p.excluded, sdk::state_name(r.validation_state())
        );
        // Box hash: name the failure class after what the SDK's own box map says about the mutated file
        // (bytes that no box of the map covers) so that this known weakness does not mask other failures.
        let mut uncovered = false;
        if p.spec.binding == "box" {
            if let Ok(map) = c2pa::verif_hooks::box_map(&p.spec.format, &mutated) {
                let mut cov = vec![false; mutated.len()];
                for (_, st, ln, _) in &map {
                    let (a, b) = ((*st as usize).min(mutated.len()), ((*st + *ln) as usize).min(mutated.len()));
                    cov[a..b].iter_mut().for_each(|c| *c = true);
                }
                uncovered = cov.iter().any(|c| !*c);
            }
        }
        let sig = if uncovered {
            format!("C01:boxhash-uncovered-bytes:{}", p.spec.label.split('-').next().unwrap_or(""))
        } else {
            format!("C01:protected-content-changed-but-valid:{}", p.spec.binding)
        };
        return Err(Fail::new(sig, what));
    }
    if sdk::report_same_bytes(&r) != p.report || sdk::verdict(&r) != p.verdict {
        return Err(Fail::new(
            format!("C01:valid-with-different-report:{}", p.spec.binding),
            format!("{mclass} at [{s},{t}) inside the exclusions of {} leaves the asset Valid but the reported manifest differs", p.spec.label),
        ));
    }
    Ok(())
}

fn specs(run: &Run) -> Vec<AssetSpec> {
    let mut v = vec![];
    let mk = |label: &str, format: &str, source: &str, binding: &str, update: bool, claim_v: u8| AssetSpec {
        label: label.into(),
        format: format.into(),
        source: source.into(),
        binding: binding.into(),
        update,
        claim_v,
    };
    // fixtures (data hash / bmff hash by format)
    for (label, fmt, fx) in sdk::writable_fixtures() {
        if fx.is_empty() {
            continue;
        }
        let big = std::fs::metadata(format!("{}/{}", sdk::FIXTURES, fx)).map(|m| m.len()).unwrap_or(0) > 120_000;
        if big && run.quick() {
            continue;
        }
        let fx = if label == "tiff" { "test.tiff" } else { fx };
        let binding = if ["mp4", "avif", "heic", "m4a"].contains(&label) { "bmff" } else { "data" };
        v.push(mk(&format!("{label}-{binding}-fixture"), fmt, fx, binding, false, 2));
    }
    // box hash (compressed manifests) on the box-hash capable formats
    for (label, fmt, fx) in [("jpeg", "image/jpeg", "no_manifest.jpg"), ("png", "image/png", "libpng-test.png"), ("gif", "image/gif", "sample1.gif"), ("jxl", "image/jxl", "sample1.jxl")] {
        if run.quick() && (label == "gif" || label == "jxl") {
            continue; // large fixtures: thorough only (synthesised gif/jxl cover box hash in quick)
        }
        v.push(mk(&format!("{label}-box-fixture"), fmt, fx, "box", false, 2));
    }
    // claim v1, update manifests, merkle
    v.push(mk("jpeg-data-v1", "image/jpeg", "no_manifest.jpg", "data", false, 1));
    v.push(mk("png-data-update", "image/png", "libpng-test.png", "data", true, 2));
    v.push(mk("jpeg-data-update", "image/jpeg", "no_manifest.jpg", "data", true, 2));
    if !run.quick() {
        v.push(mk("mp4-bmff-update", "video/mp4", "video1_no_manifest.mp4", "bmff", true, 2));
        v.push(mk("mp4-bmff-merkle", "video/mp4", "video1_no_manifest.mp4", "bmff-merkle", false, 2));
    }
    v.push(mk("avif-bmff-update", "image/avif", "sample1.avif", "bmff", true, 2));
    v.push(mk("mp4-bmff-merkle-synth", "video/mp4", &format!("synth:mp4:{}", run.seed ^ 77), "bmff-merkle", false, 2));
    v.push(mk("mp4-bmff-update-synth", "video/mp4", &format!("synth:mp4:{}", run.seed ^ 78), "bmff", true, 2));
    // synthesised small assets (every kind the toolkit offers), two seeds each in thorough
    let seeds: &[u64] = if run.quick() { &[1] } else { &[1, 2, 3, 4] };
    for kind in vh::assets::KINDS {
        for s in seeds {
            let d = vh::assets::synth_default(kind);
            let binding = if ["mp4", "mov", "heic", "avif", "m4a"].contains(kind) { "bmff" } else { "data" };
            v.push(mk(&format!("{kind}-{binding}-synth{s}"), d.format, &format!("synth:{kind}:{}", run.seed ^ s), binding, false, 2));
            if ["jpeg", "png", "gif", "jxl"].contains(kind) {
                v.push(mk(&format!("{kind}-box-synth{s}"), d.format, &format!("synth:{kind}:{}", run.seed ^ s), "box", false, 2));
            }
        }
    }
    v
}

fn mutations_for(p: &Prepared, rng: &mut vh::rng::SplitMix64, payload_samples: usize, every_byte: bool) -> Vec<Mutation> {
    let len = p.bytes.len();
    let mut pos: Vec<usize> = vec![];
    if every_byte && len <= 20_000 {
        pos.extend(0..len);
    } else {
        for k in 0..24.min(len) {
            pos.push(k);
            pos.push(len - 1 - k);
        }
        for (a, b) in &p.excluded {
            for d in 0..4usize {
                pos.push(a.saturating_sub(d + 1));
                pos.push((a + d).min(len - 1));
                pos.push(b.saturating_sub(d + 1).min(len - 1));
                pos.push((b + d).min(len - 1));
            }
        }
        if p.spec.binding.starts_with("bmff") {
            for (_, s, e) in bmff_top_boxes(&p.bytes) {
                for d in 0..12usize {
                    pos.push((s + d).min(len - 1));
                }
                pos.push(e - 1);
            }
        }
        for _ in 0..payload_samples {
            pos.push(rng.usize(len));
        }
        // a few inside E too (report-equality half)
        for (a, b) in &p.excluded {
            for _ in 0..(payload_samples / 8).max(4) {
                if b > a {
                    pos.push(a + rng.usize(b - a));
                }
            }
        }
    }
    pos.sort();
    pos.dedup();
    let mut out = vec![];
    for q in pos {
        out.push(Mutation::Flip { pos: q, bit: (rng.next_u64() % 8) as u8 });
        let cur = p.bytes[q];
        out.push(Mutation::Set { pos: q, val: if cur == 0 { 0xFF } else { 0 } });
        if !every_byte || q % 7 == 0 {
            out.push(Mutation::Insert { pos: q, bytes: vec![rng.next_u64() as u8] });
            out.push(Mutation::Delete { pos: q, len: 1 });
        }
    }
    // structural tail edits
    for k in [1usize, 2, 8, 64] {
        if len > k {
            out.push(Mutation::Truncate { pos: len - k });
        }
        out.push(Mutation::Append { bytes: rng.bytes(k) });
    }
    out.push(Mutation::Append { bytes: vec![0] });
    out.push(Mutation::Truncate { pos: len / 2 });
    out
}

fn main() {
    vh::quiet_panics();
    let run = Run::from_args("C01", "exploration");
    run.set_rule("case = (signed asset, byte mutation). Signed assets: every writable container (repository fixtures + synthesised small assets) x binding {data hash, box hash via core.prefer_compress_manifests, BMFF hash, BMFF Merkle, update manifest on top} x claim v1/v2, ed25519. Mutations: flip/set/insert/delete at every structural boundary (+-4 around each declared exclusion, file head/tail, BMFF box headers) and at sampled payload positions (quick) or at every byte of small assets (thorough), truncations and appends. Non-trivial = the mutation touches at least one byte outside the exclusions declared by the signed hard binding (protected content).");
    run.assume("the excluded ranges are taken from the hard-binding assertion of the ORIGINAL read (signed data), box-hash C2PA box located by the independent walker, BMFF exclusions over-approximated to whole top-level boxes named by the exclusion xpaths (so only certainly-protected bytes are judged strictly)");
    run.assume("Err, Invalid and panics all count as 'not reported Valid' here (panics are C10's subject)");

    let all_specs = specs(&run);
    // replay: rebuild exactly the asset of the case
    if let Some((_, case)) = &run.replay {
        if let Ok(c) = serde_json::from_value::<Case>(case.clone()) {
            match prepare(&c.asset) {
                Ok(p) => run.drive_enum("mutations", vec![c.clone()], |c| judge(&run, &p, &c.mutation)),
                Err(e) => run.inconclusive(format!("replay asset cannot be prepared: {e}")),
            }
        }
        run.finish();
    }

    let mut prepared: Vec<Prepared> = vec![];
    let mut rejected = 0;
    for s in &all_specs {
        let mut s = s.clone();
        // Merkle + synthesised MP4: some generated layouts (two mdat boxes, mdat with size 0) do not survive
        // signing with a Merkle tree (routed to C03); walk the seed until the signed asset is Valid.
        if s.label == "mp4-bmff-merkle-synth" {
            for k in 0..24u64 {
                let cand = AssetSpec { source: format!("synth:mp4:{}", (run.seed ^ 77).wrapping_add(k)), ..s.clone() };
                if matches!(vh::catch(|| prepare(&cand)), Ok(Ok(_))) {
                    s = cand;
                    break;
                }
                run.count("merkle_synth_seed_skipped");
            }
        }
        let s = &s;
        match vh::catch(|| prepare(s)) {
            Ok(Ok(p)) => prepared.push(p),
            Ok(Err(e)) => {
                rejected += 1;
                run.note(format!("generator_rejected {}: {e}", s.label));
                run.count("generator_rejected");
            }
            Err(pm) => {
                rejected += 1;
                run.note(format!("generator_rejected {} (panic {pm})", s.label));
                run.count("generator_rejected");
            }
        }
    }
    run.extra("assets_prepared", json!(prepared.len()));
    run.extra("assets_rejected", json!(rejected));
    if prepared.len() < 10 || rejected * 5 > all_specs.len() {
        run.inconclusive(format!("only {} of {} assets could be prepared", prepared.len(), all_specs.len()));
    }
    let mut per_asset: BTreeMap<String, usize> = BTreeMap::new();
    let mut cases: Vec<(usize, Mutation)> = vec![];
    let mut rng = vh::rng::SplitMix64::new(run.seed ^ 0xC01);
    for (i, p) in prepared.iter().enumerate() {
        let small = p.bytes.len() <= 20_000;
        let ms = mutations_for(p, &mut rng, run.scale(if small { 500 } else { 150 }, 1500), !run.quick() && small);
        per_asset.insert(p.spec.label.clone(), ms.len());
        cases.extend(ms.into_iter().map(|m| (i, m)));
    }
    run.extra("mutations_per_asset", json!(per_asset));
    let full: Vec<Case> = cases.into_iter().map(|(i, m)| Case { asset: prepared[i].spec.clone(), mutation: m }).collect();
    let index: BTreeMap<String, usize> = prepared.iter().enumerate().map(|(i, p)| (p.spec.label.clone(), i)).collect();
    run.drive_enum_par("mutations", full, 16, |c| {
        let p = &prepared[index[&c.asset.label]];
        judge(&run, p, &c.mutation)
    });

    run.finish();
}
