//! C09 — embedding, replacing and removing a manifest preserves the media content.
//!
//! Oracle (no SDK parsing code): `lit(x)` = `vh::walk::media_content(x)` (ordered non-manifest units with their bytes +
//! the dereferenced bytes of every absolute offset table entry) extended by the literal items that the toolkit's
//! extractor deliberately leaves out (GIF version digits, SVG byte-order mark, RIFF pad bytes).
//! For an asset A (synthesised, fresh or already carrying a store) and a store s:
//!   W = save_jumbf_to_memory(A, s)            (1) lit(W) == lit(A)            (4) load_jumbf(W) == s
//!   RA = remove(A), RW = remove(W)            (2) lit(RW) == lit(RA)          (3) RW == RA byte for byte
//!   A carries a store:                         (5) lit(RA) == lit(A)
//! A difference is first explained by the narrow, individually recognised deviation classes (each with its own
//! signature and its own precondition); whatever is left unexplained is `C09:content-changed:<kind>`.

use std::collections::BTreeSet;

use proptest::prelude::*;
use serde::{Deserialize, Serialize};
use serde_json::json;
use vh::{assets, rng::SplitMix64, walk, CaseResult, Fail, Run};

type Content = Vec<(String, Vec<u8>)>;

const MIN_STORE: usize = 46; // 38-byte frame + 8 bytes (BMFF needs them, harmless elsewhere)

#[derive(Clone, Debug, Serialize, Deserialize, PartialEq, Eq, Hash)]
enum Tweak {
    None,
    /// append `n` bytes after the last RIFF chunk
    Trailing { n: usize },
    /// set the pad byte of the first odd-sized child of the first RIFF chunk to 0xAA
    PadNonZero,
}

#[derive(Clone, Debug, Serialize, Deserialize, PartialEq, Eq, Hash)]
struct Case {
    kind: String,
    /// format string handed to the SDK (one of the strings the handler lists)
    format: String,
    seed: u64,
    size_hint: usize,
    /// length of the store the synthesiser embeds beforehand (None = manifest-free asset)
    existing: Option<usize>,
    store_len: usize,
    /// generator feature asked for (seed walk): "" | "pre" | "c2pa-last" | substring of `Synth::desc`
    want: String,
    /// one of `vh::assets::VARIANTS` for the kind, or ""
    variant: String,
    tweak: Tweak,
    /// explicit asset bytes (regression files): overrides generation
    #[serde(default)]
    asset_hex: Option<String>,
}

fn formats_of(kind: &str) -> &'static [&'static str] {
    match kind {
        "jpeg" => &["image/jpeg", "jpg", "jpeg"],
        "png" => &["image/png", "png"],
        "gif" => &["image/gif", "gif"],
        "wav" => &["audio/wav", "wav", "audio/wave", "audio/x-wav", "audio/vnd.wave"],
        "webp" => &["image/webp", "webp"],
        "avi" => &["video/avi", "avi", "video/msvideo", "video/x-msvideo", "application/x-troff-msvideo"],
        "tiff" => &["image/tiff", "tif", "tiff", "dng", "image/dng", "image/x-adobe-dng"],
        "svg" => &["image/svg+xml", "svg", "application/svg+xml"],
        "mp3" => &["audio/mpeg", "mp3", "audio/mp3", "audio/x-mp3", "audio/mpeg3"],
        "flac" => &["audio/flac", "flac"],
        "jxl" => &["image/jxl", "jxl"],
        "mp4" => &["video/mp4", "mp4", "application/mp4", "m4v", "video/x-m4v"],
        "mov" => &["video/quicktime", "mov"],
        "heic" => &["image/heic", "heic", "heif", "image/heif"],
        "avif" => &["image/avif", "avif"],
        "m4a" => &["audio/mp4", "m4a"],
        _ => &[],
    }
}

fn wants_of(kind: &str, existing: bool) -> &'static [&'static str] {
    match (walk::family(kind).unwrap_or(""), existing) {
        ("bmff", true) if kind == "heic" || kind == "avif" => &["pre", "pre", "c2pa-last", "pre", "", "co64", "iloc v1", "iloc v2", "base4", "base8"],
        ("bmff", false) if kind == "heic" || kind == "avif" => &["", "co64", "stco", "iloc v0", "iloc v1", "iloc v2", "base4", "base8", "mdat-largesize"],
        ("bmff", true) => &["pre", "pre", "c2pa-last", "pre", "", "co64", "stco"],
        ("bmff", false) => &["", "co64", "stco", "mdat-largesize", "mdat-size0"],
        ("tiff", true) => &["", "pre", "3 page", "2 page", "c2pa-own-ifd"],
        ("tiff", false) => &["", "3 page", "2 page"],
        ("riff", _) if kind == "avi" => &["AVIX", "AVIX", ""],
        ("svg", _) => &["", "bom", "metadata"],
        ("gif", true) => &["", "plain-text", "xmp", "trailing"],
        ("gif", false) => &["", "87a", "plain-text", "87a", "xmp"],
        ("mp3", _) => &["", "id3v2.3", "id3v2.4", "id3v1"],
        ("flac", _) => &["", "id3v2"],
        ("jpeg", _) => &["", "restart", "second-image", "trailing", "progressive"],
        ("png", true) => &["", "trailing", "c2pa-before-IHDR", "c2pa-before-IEND"],
        ("png", false) => &["", "trailing"],
        ("jxl", _) => &["", "size0-last", "jxlp"],
        _ => &[""],
    }
}

struct Asset {
    bytes: Vec<u8>,
    desc: String,
    offsets: Vec<assets::OffsetRef>,
    want_met: bool,
}

fn first_manifest_start(kind: &str, b: &[u8]) -> Option<usize> {
    walk::manifest_spans(kind, b).ok().and_then(|v| v.iter().map(|s| s.0).min())
}

fn satisfies(kind: &str, want: &str, s: &assets::Synth) -> bool {
    match want {
        "" => true,
        "pre" => match first_manifest_start(kind, &s.bytes) {
            Some(p) => s.offsets.iter().any(|o| o.target < p),
            None => false,
        },
        "c2pa-last" => walk::manifest_spans(kind, &s.bytes).map(|v| v.iter().any(|(a, l)| a + l == s.bytes.len())).unwrap_or(false),
        "co64" | "stco" => s.regions.iter().any(|r| r.name.contains(want)),
        w => s.desc.contains(w),
    }
}

fn build(c: &Case) -> Result<Asset, String> {
    if let Some(h) = &c.asset_hex {
        let bytes = hex::decode(h).map_err(|e| format!("asset_hex: {e}"))?;
        return Ok(Asset { bytes, desc: "explicit bytes".into(), offsets: vec![], want_met: true });
    }
    let mut last = None;
    let tries = if c.want.is_empty() { 1 } else { 48 };
    for k in 0..tries {
        let mut rng = SplitMix64::new(c.seed.wrapping_add((k as u64).wrapping_mul(0x9E37_79B9_7F4A_7C15)));
        let s = if !c.variant.is_empty() {
            assets::synth_variant(&c.kind, &mut rng, c.size_hint, &c.variant)
        } else if let Some(n) = c.existing {
            let store = assets::fake_store(n.max(MIN_STORE), &mut rng);
            assets::synth_with_store(&c.kind, &mut rng, c.size_hint, &store)
        } else {
            assets::synth(&c.kind, &mut rng, c.size_hint)
        };
        let ok = satisfies(&c.kind, &c.want, &s);
        last = Some((s, ok));
        if ok {
            break;
        }
    }
    let (s, want_met) = last.unwrap();
    let mut bytes = s.bytes;
    match &c.tweak {
        Tweak::None => {}
        Tweak::Trailing { n } => {
            for i in 0..*n {
                bytes.push(0xE0 | (i as u8 & 0x0F)); // never a RIFF / LIST / JUNK id
            }
        }
        Tweak::PadNonZero => {
            if let Ok(units) = walk::walk(&c.kind, &bytes) {
                if let Some(u) = units.iter().find(|u| !u.is_manifest && u.start > 0 && u.kind != "trailing" && u.len == 8 + u.payload_len + 1) {
                    bytes[u.start + u.len - 1] = 0xAA;
                }
            }
        }
    }
    Ok(Asset { bytes, desc: s.desc, offsets: s.offsets, want_met })
}

/// `media_content` plus the literal items it leaves out on purpose.
fn lit(kind: &str, b: &[u8], id3_norm: bool) -> Result<Content, String> {
    let mut c = if id3_norm { walk::media_content_normalised(kind, b)? } else { walk::media_content(kind, b)? };
    match walk::family(kind) {
        Some("gif") => c.push(("literal:gif-version".into(), b.get(3..6).unwrap_or(&[]).to_vec())),
        Some("svg") => c.push(("literal:bom".into(), if b.starts_with(&[0xEF, 0xBB, 0xBF]) { b[..3].to_vec() } else { vec![] })),
        Some("riff") => {
            let mut pads = vec![];
            for u in walk::walk(kind, b)? {
                if !u.is_manifest && u.start > 0 && u.kind != "trailing" && u.len == 8 + u.payload_len + 1 {
                    pads.push(b[u.start + u.len - 1]);
                }
            }
            c.push(("literal:riff-pad".into(), pads));
        }
        _ => {}
    }
    Ok(c)
}

fn entry<'a>(c: &'a Content, name: &str) -> Option<&'a Vec<u8>> {
    c.iter().find(|e| e.0 == name).map(|e| &e.1)
}

fn is_deref(name: &str) -> bool {
    name.contains('/')
}

fn base_name(name: &str) -> &str {
    name.strip_suffix("!oob").unwrap_or(name)
}

/// Key of an offset-table entry: the chunk-offset entry itself, or the iloc item it belongs to (a base offset
/// that a wrong shift turns into 0 changes how the item's extents are named, so items are compared as a whole).
fn ref_key(name: &str) -> String {
    let n = base_name(name);
    match n.find("/iloc/item") {
        Some(i) => {
            let id: String = n[i + 10..].chars().take_while(|c| c.is_ascii_digit()).collect();
            format!("{}/iloc/item{}", &n[..i], id)
        }
        None => n.to_string(),
    }
}

/// Keys of the BMFF offset-table entries of `a` that address bytes located before its C2PA box.
fn bmff_refs_before(kind: &str, a: &[u8]) -> BTreeSet<String> {
    let mut out = BTreeSet::new();
    if walk::family(kind) != Some("bmff") {
        return out;
    }
    let Some(p) = first_manifest_start(kind, a) else { return out };
    if let Ok(refs) = walk::bmff_offset_refs(a) {
        for r in refs {
            if r.target < p as u64 {
                out.insert(ref_key(&r.name));
            }
        }
    }
    out
}

/// For every top-level box entry that differs between `ca` and `cb` (same name, same length): if the bytes are
/// equal outside the offset fields that `bmff_offset_refs` reports for either file, make the entries equal.
fn bmff_blank_offset_fields(kind: &str, a: &[u8], b: &[u8], ca: &mut Content, cb: &mut Content) {
    let (Ok(ua), Ok(ub), Ok(ra), Ok(rb)) = (walk::walk(kind, a), walk::walk(kind, b), walk::bmff_offset_refs(a), walk::bmff_offset_refs(b)) else { return };
    let ua: Vec<_> = ua.into_iter().filter(|u| !u.is_manifest).collect();
    let ub: Vec<_> = ub.into_iter().filter(|u| !u.is_manifest).collect();
    let boxes_a: Vec<usize> = ca.iter().enumerate().filter(|(_, e)| !is_deref(&e.0)).map(|(i, _)| i).collect();
    let boxes_b: Vec<usize> = cb.iter().enumerate().filter(|(_, e)| !is_deref(&e.0)).map(|(i, _)| i).collect();
    if boxes_a.len() != ua.len() || boxes_b.len() != ub.len() || ua.len() != ub.len() {
        return;
    }
    for j in 0..ua.len() {
        let (ia, ib) = (boxes_a[j], boxes_b[j]);
        if ca[ia].0 != cb[ib].0 || ca[ia].1.len() != cb[ib].1.len() || ca[ia].1 == cb[ib].1 {
            continue;
        }
        // relative position -> width of every offset field known from either file
        let mut fields: std::collections::BTreeMap<usize, usize> = Default::default();
        for (u, refs) in [(&ua[j], &ra), (&ub[j], &rb)] {
            for r in refs.iter().filter(|r| r.entry_pos >= u.payload_start && r.entry_pos < u.start + u.len) {
                let w = fields.entry(r.entry_pos - u.payload_start).or_insert(0);
                *w = (*w).max(r.width as usize);
            }
        }
        let (mut xa, mut xb) = (ca[ia].1.clone(), cb[ib].1.clone());
        for (p, w) in fields {
            for k in p..(p + w).min(xa.len()) {
                xa[k] = 0;
                xb[k] = 0;
            }
        }
        if xa == xb {
            ca[ia].1 = xa.clone();
            cb[ib].1 = xa;
        }
    }
}

fn first_diff(a: &Content, b: &Content) -> String {
    let i = a.iter().zip(b.iter()).position(|(x, y)| x != y).unwrap_or(a.len().min(b.len()));
    let show = |c: &Content| match c.get(i) {
        Some((n, v)) => format!("{n} ({} bytes, {}…)", v.len(), hex::encode(&v[..v.len().min(12)])),
        None => "<end>".to_string(),
    };
    format!("entry {i}: {} -> {} ({} -> {} entries)", show(a), show(b), a.len(), b.len())
}

/// Compares the literal content of `a` (input of an operation) and `b` (its output).
/// Ok(classes) lists the recognised deviation classes that explain *all* differences (empty = identical);
/// Err(text) describes an unexplained difference.
fn compare(kind: &str, format: &str, a: &[u8], b: &[u8]) -> Result<Vec<(String, String)>, String> {
    let mut ca = lit(kind, a, false).map_err(|e| format!("walker on the input: {e}"))?;
    let mut cb = match lit(kind, b, false) {
        Ok(c) => c,
        Err(e) => return Err(format!("the output is no longer a well-formed {kind} for the independent walker: {e}")),
    };
    let mut classes = vec![];
    if ca == cb {
        return Ok(classes);
    }
    let fam = walk::family(kind).unwrap_or("");
    let drop = |c: &mut Content, pred: &dyn Fn(&str) -> bool| c.retain(|e| !pred(&e.0));
    // --- BMFF: offset entries that address data in front of the existing C2PA box
    if fam == "bmff" {
        let before = bmff_refs_before(kind, a);
        if !before.is_empty() {
            let part = |c: &Content| c.iter().filter(|e| is_deref(&e.0) && before.contains(&ref_key(&e.0))).map(|e| (base_name(&e.0).to_string(), e.1.clone())).collect::<Vec<_>>();
            let (pa, pb) = (part(&ca), part(&cb));
            if pa != pb {
                let i = pa.iter().zip(pb.iter()).position(|(x, y)| x != y).unwrap_or(0);
                let name = pa.get(i).map(|x| x.0.clone()).unwrap_or_default();
                let val = |x: &[u8]| walk::bmff_offset_refs(x).ok().and_then(|r| r.into_iter().find(|r| r.name == name).map(|r| r.target.to_string())).unwrap_or_else(|| "?".into());
                classes.push((
                    format!("C09:bmff-offsets-before-c2pa:{kind}"),
                    format!(
                        "{} of {} offset entries addressing data in front of the C2PA box (at {}) no longer address the same bytes, e.g. {name}: {} -> {}",
                        pa.iter().zip(pb.iter()).filter(|(x, y)| x != y).count() + pa.len().saturating_sub(pb.len()),
                        pa.len(),
                        first_manifest_start(kind, a).unwrap_or(0),
                        val(a),
                        val(b)
                    ),
                ));
                let pred = |n: &str| is_deref(n) && before.contains(&ref_key(n));
                drop(&mut ca, &pred);
                drop(&mut cb, &pred);
                // A base offset that the wrong shift turns into exactly 0 changes which iloc fields count as
                // absolute offsets (and are blanked by the extractor): compare the table boxes with the offset
                // fields of *both* files blanked.
                bmff_blank_offset_fields(kind, a, b, &mut ca, &mut cb);
            }
        }
    }
    // --- AVI: further top-level RIFF 'AVIX' chunks missing from the output
    if kind == "avi" {
        let n_a = ca.iter().filter(|e| e.0 == "RIFF:AVIX").count();
        let n_b = cb.iter().filter(|e| e.0 == "RIFF:AVIX").count();
        if n_a > 0 && n_b == 0 {
            classes.push((format!("C09:avi-avix-dropped:{format}"), format!("{n_a} top-level RIFF AVIX chunk(s) of the input are missing from the output")));
            drop(&mut ca, &|n| n == "RIFF:AVIX");
        }
    }
    // --- RIFF: bytes after the last chunk missing from the output
    if fam == "riff" {
        let t_a = ca.iter().filter(|e| e.0 == "trailing").count();
        let t_b = cb.iter().filter(|e| e.0 == "trailing").count();
        if t_a > 0 && t_b == 0 {
            classes.push((format!("C09:riff-trailing-bytes-dropped:{kind}"), format!("{} byte(s) after the last RIFF chunk are missing from the output", entry(&ca, "trailing").map(|v| v.len()).unwrap_or(0))));
            drop(&mut ca, &|n| n == "trailing");
        }
        let (pa, pb) = (entry(&ca, "literal:riff-pad").cloned().unwrap_or_default(), entry(&cb, "literal:riff-pad").cloned().unwrap_or_default());
        if pa != pb && pa.len() == pb.len() && pb.iter().all(|x| *x == 0) {
            classes.push((format!("C09:riff-pad-byte-zeroed:{kind}"), format!("pad bytes {:02x?} of odd-sized chunks were rewritten as 0", pa)));
            drop(&mut ca, &|n| n == "literal:riff-pad");
            drop(&mut cb, &|n| n == "literal:riff-pad");
        }
    }
    // --- GIF: version digits
    if fam == "gif" {
        let (va, vb) = (entry(&ca, "literal:gif-version").cloned().unwrap_or_default(), entry(&cb, "literal:gif-version").cloned().unwrap_or_default());
        if va == b"87a" && vb == b"89a" {
            classes.push(("C09:gif-version-bumped".into(), "GIF87a header rewritten as GIF89a".into()));
            drop(&mut ca, &|n| n == "literal:gif-version");
            drop(&mut cb, &|n| n == "literal:gif-version");
        }
    }
    // --- SVG: byte-order mark
    if fam == "svg" {
        let (va, vb) = (entry(&ca, "literal:bom").cloned().unwrap_or_default(), entry(&cb, "literal:bom").cloned().unwrap_or_default());
        if !va.is_empty() && vb.is_empty() {
            classes.push(("C09:svg-bom-dropped".into(), "the UTF-8 byte-order mark at the start of the file is missing from the output".into()));
            drop(&mut ca, &|n| n == "literal:bom");
            drop(&mut cb, &|n| n == "literal:bom");
        }
    }
    // --- ID3: frames re-encoded (v2.3 -> v2.4, text encoding byte)
    if (fam == "mp3" || fam == "flac") && ca != cb {
        let na = lit(kind, a, true).map_err(|e| format!("walker on the input: {e}"))?;
        let nb = lit(kind, b, true).map_err(|e| format!("walker on the output: {e}"))?;
        if na == nb {
            let i = ca.iter().zip(cb.iter()).position(|(x, y)| x != y).unwrap_or(0);
            classes.push((
                format!("C09:id3-tag-rewritten:{kind}"),
                format!("ID3v2 frame bytes changed (same decoded strings), first: {}", first_diff(&ca, &cb).replace('\n', " ")).chars().take(300).collect::<String>() + &format!(" [entry {i}]"),
            ));
            ca = na;
            cb = nb;
        }
    }
    if ca != cb {
        return Err(first_diff(&ca, &cb));
    }
    Ok(classes)
}

struct Findings(Vec<Fail>);

impl Findings {
    fn push(&mut self, sig: impl Into<String>, what: impl Into<String>) {
        self.0.push(Fail::new(sig, what));
    }
    /// A failure that is not a registered finding wins; else the first registered one is returned and the other
    /// registered findings of the case are recorded as observed too.
    fn verdict(self, run: &Run) -> CaseResult {
        let mut v = self.0;
        if let Some(i) = v.iter().position(|f| !run.is_known(&f.signature)) {
            return Err(v.swap_remove(i));
        }
        let mut it = v.into_iter();
        match it.next() {
            Some(first) => {
                let mut seen = vec![first.signature.clone()];
                for f in it {
                    if !seen.contains(&f.signature) {
                        seen.push(f.signature.clone());
                        run.fail("embed_remove", &f, serde_json::Value::Null);
                    }
                }
                Err(first)
            }
            None => Ok(()),
        }
    }
}

/// `C09_DUMP=1`: keep the asset bytes of failing / rejected cases under /verif/work/C09 (debugging aid).
fn dump(c: &Case, a: &[u8], tag: &str) {
    if std::env::var("C09_DUMP").is_ok() {
        let dir = vh::core::verif_root().join("work").join("C09");
        let _ = std::fs::create_dir_all(&dir);
        let _ = std::fs::write(dir.join(format!("{tag}-{}-{:016x}.bin", c.kind, vh::digest(c))), a);
    }
}

static MKREG: std::sync::Mutex<std::collections::BTreeMap<String, (usize, serde_json::Value)>> = std::sync::Mutex::new(std::collections::BTreeMap::new());

/// `C09_MKREG=1`: remember, per signature, the failing case with the smallest asset (explicit bytes) so that
/// regression files with concrete inputs can be written (development aid, see `main`).
fn mkreg(check: &str, c: &Case, a: &[u8], f: &Fail) {
    if std::env::var("C09_MKREG").is_err() {
        return;
    }
    let mut g = MKREG.lock().unwrap();
    let better = g.get(&f.signature).map(|(n, _)| a.len() < *n).unwrap_or(true);
    if better {
        let case = Case { asset_hex: Some(hex::encode(a)), ..c.clone() };
        g.insert(f.signature.clone(), (a.len(), json!({"check": check, "signature": f.signature, "what": f.what, "case": case})));
    }
}

fn survey() -> bool {
    std::env::var("C09_SURVEY").map(|v| v == "1").unwrap_or(false)
}

fn selftest() -> u8 {
    std::env::var("VERIF_SELFTEST").ok().and_then(|v| v.parse().ok()).unwrap_or(0)
}

/// Deliberately wrong "SDK answers" for the sensitivity self-test (never active without VERIF_SELFTEST).
fn selftest_corrupt(kind: &str, mode: u8, out: &mut Vec<u8>) {
    match mode {
        // 1: flip one payload byte of the last non-manifest unit
        1 => {
            if let Ok(units) = walk::walk(kind, out) {
                if let Some(u) = units.iter().rev().find(|u| !u.is_manifest && u.payload_len > 0) {
                    out[u.payload_start + u.payload_len / 2] ^= 0x01;
                }
            }
        }
        // 2: BMFF — add 1 to the first stco/co64/iloc entry (an offset that no longer addresses the same bytes)
        2 => {
            if walk::family(kind) == Some("bmff") {
                if let Ok(refs) = walk::bmff_offset_refs(out) {
                    if let Some(r) = refs.iter().find(|r| r.width > 0) {
                        let p = r.entry_pos + r.width as usize - 1;
                        out[p] = out[p].wrapping_add(1);
                    }
                }
            }
        }
        _ => {}
    }
}

fn changed_sig(c: &Case) -> String {
    if c.variant.is_empty() {
        format!("C09:content-changed:{}", c.kind)
    } else {
        format!("C09:variant:{}:{}", c.variant, c.kind)
    }
}

fn panic_fail(kind: &str, known_layout: bool, stage: &str, p: &str) -> Fail {
    let site = vh::core::panic_site(p);
    let sig = if known_layout { format!("C09:panic:{site}") } else { format!("C09:panic-other-layout:{site}") };
    Fail::new(sig, format!("{stage} of a {kind} asset panicked: {p}"))
}

fn judge(run: &Run, c: &Case) -> CaseResult {
    let kind = c.kind.as_str();
    let fmt = c.format.as_str();
    let asset = match vh::catch(|| build(c)) {
        Ok(Ok(a)) => a,
        Ok(Err(e)) | Err(e) => {
            run.count("harness:asset_build_failed");
            run.inconclusive(format!("asset generation failed for {c:?}: {e}"));
            return Ok(());
        }
    };
    let a = &asset.bytes;
    let fam = walk::family(kind).unwrap_or("");
    // ---- the input as the independent walker sees it
    if let Err(e) = lit(kind, a, false) {
        run.count("harness:walker_rejects_input");
        run.inconclusive(format!("walker rejects a generated {kind} asset ({}): {e}", asset.desc));
        return Ok(());
    }
    let existing_store = walk::extract_store(kind, a).ok().flatten();
    let has_store = existing_store.is_some();
    let mpos_a = first_manifest_start(kind, a);
    let before = bmff_refs_before(kind, a);
    let delta: i64 = match &existing_store {
        Some(s) => c.store_len as i64 - s.len() as i64,
        None => c.store_len as i64,
    };
    let known_bmff_layout = fam == "bmff" && has_store && !before.is_empty();

    // ---- classes
    run.count(&format!("{kind}:{}", if has_store { "existing" } else { "fresh" }));
    if has_store {
        run.count(&format!("{kind}:delta:{}", if delta > 0 { "grow" } else if delta < 0 { "shrink" } else { "equal" }));
    }
    if !c.want.is_empty() {
        run.count(&format!("{kind}:want:{}:{}", c.want, if asset.want_met { "met" } else { "unmet" }));
    }
    if !c.variant.is_empty() {
        run.count(&format!("{kind}:variant:{}", c.variant));
    }
    if fam == "bmff" {
        if has_store {
            run.count(&format!("{kind}:layout:{}", if before.is_empty() { "all-data-after-c2pa" } else { "data-before-c2pa" }));
            if walk::manifest_spans(kind, a).map(|v| v.iter().any(|(s, l)| s + l == a.len())).unwrap_or(false) {
                run.count(&format!("{kind}:layout:c2pa-box-last"));
            }
        }
        if let Ok(refs) = walk::bmff_offset_refs(a) {
            for t in ["stco", "co64", "iloc"] {
                if refs.iter().any(|r| r.name.contains(t)) {
                    run.count(&format!("{kind}:table:{t}"));
                }
            }
            if refs.iter().any(|r| r.name.ends_with("/base")) {
                run.count(&format!("{kind}:table:iloc-base-offset"));
            }
        }
    }
    if kind == "avi" {
        let avix = lit(kind, a, false).map(|c| c.iter().any(|e| e.0 == "RIFF:AVIX")).unwrap_or(false);
        run.count(&format!("avi:{}:{}", if avix { "AVIX" } else { "single-riff" }, fmt));
    }
    if fam == "tiff" {
        for k in ["1 page", "2 page", "3 page"] {
            if asset.desc.contains(k) {
                run.count(&format!("tiff:{k}(s)"));
            }
        }
    }
    match &c.tweak {
        Tweak::None => {}
        Tweak::Trailing { .. } => run.count(&format!("{kind}:tweak:trailing")),
        Tweak::PadNonZero => run.count(&format!("{kind}:tweak:pad-nonzero")),
    }
    // non-trivial: an absolute offset addresses bytes before the manifest position, or a size change of an existing store
    let offset_before_manifest = match mpos_a {
        Some(p) => asset.offsets.iter().any(|o| o.target < p) || !before.is_empty(),
        None => false,
    };
    let mut nontrivial = offset_before_manifest || (has_store && delta != 0);

    let mut fnd = Findings(vec![]);
    let mut rng = SplitMix64::new(c.seed ^ 0xC09);
    let store = assets::fake_store(c.store_len.max(MIN_STORE), &mut rng);

    // ---- write
    let w = match vh::catch(|| c2pa::jumbf_io::save_jumbf_to_memory(fmt, a, &store)) {
        Err(p) => {
            run.count(&format!("{kind}:write:panic"));
            if nontrivial {
                run.nontrivial(c);
            }
            fnd.0.push(panic_fail(kind, known_bmff_layout, &format!("save_jumbf_to_memory ({} -> {} byte store)", existing_store.as_ref().map(|s| s.len()).unwrap_or(0), store.len()), &p));
            None
        }
        Ok(Err(e)) => {
            // an error is not a content change (whether the write may fail is C07's subject)
            run.count(&format!("{kind}:write:err"));
            run.note(format!("write error {kind} [{}]: {e:?} :: {c:?}", asset.desc));
            dump(c, a, "write-err");
            None
        }
        Ok(Ok(mut w)) => {
            selftest_corrupt(kind, selftest(), &mut w);
            Some(w)
        }
    };
    if let Some(w) = &w {
        run.count(&format!("{kind}:write:ok"));
        // fresh TIFF / others: the manifest position in the output decides whether offsets precede it
        if !has_store {
            if let Some(p) = first_manifest_start(kind, w) {
                if fam == "bmff" {
                    if walk::bmff_offset_refs(w).map(|r| r.iter().any(|r| r.target < p as u64)).unwrap_or(false) {
                        nontrivial = true;
                    }
                } else if fam == "tiff" && !asset.offsets.is_empty() && asset.offsets.iter().any(|o| o.target < p) {
                    nontrivial = true;
                }
            }
        }
        // (4) read-back
        match vh::catch(|| c2pa::jumbf_io::load_jumbf_from_memory(fmt, w)) {
            Ok(Ok(s)) if s == store => {}
            Ok(Ok(s)) => fnd.push(format!("C09:read-back-differs:{kind}"), format!("load_jumbf after save returns {} bytes that differ from the {} bytes written", s.len(), store.len())),
            Ok(Err(e)) => fnd.push(format!("C09:read-back-fails:{kind}"), format!("load_jumbf after a successful save fails: {e:?}")),
            Err(p) => fnd.0.push(panic_fail(kind, false, "load_jumbf_from_memory after save", &p)),
        }
        // (1) content preserved by embedding / replacing
        match compare(kind, fmt, a, w) {
            Ok(cl) => {
                for (s, t) in cl {
                    fnd.push(s, format!("write ({} -> {} byte store): {t}", existing_store.as_ref().map(|s| s.len()).unwrap_or(0), store.len()));
                }
            }
            Err(t) => fnd.push(changed_sig(c), format!("write ({} -> {} byte store) changed the media content: {t} [{}]", existing_store.as_ref().map(|s| s.len()).unwrap_or(0), store.len(), asset.desc)),
        }
    }
    if nontrivial {
        run.nontrivial(c);
        run.count(&format!("{kind}:nontrivial"));
    }

    // ---- remove on the original
    let ra = match vh::catch(|| c2pa::verif_hooks::remove_manifest(fmt, a)) {
        Err(p) => {
            run.count(&format!("{kind}:remove-original:panic"));
            fnd.0.push(panic_fail(kind, known_bmff_layout, "remove_cai_store_from_stream on the original", &p));
            None
        }
        Ok(Err(e)) => {
            run.count(&format!("{kind}:remove-original:{}:err", if has_store { "with-store" } else { "manifest-free" }));
            if has_store {
                run.note(format!("remove error on {kind} with store [{}]: {e:?}", asset.desc));
            }
            None
        }
        Ok(Ok(r)) => {
            run.count(&format!("{kind}:remove-original:{}:ok", if has_store { "with-store" } else { "manifest-free" }));
            Some(r)
        }
    };
    // (5) removal preserves the content of an asset that carries a store
    if let (Some(ra), true) = (&ra, has_store) {
        match compare(kind, fmt, a, ra) {
            Ok(cl) => {
                for (s, t) in cl {
                    fnd.push(s, format!("remove: {t}"));
                }
            }
            Err(t) => fnd.push(changed_sig(c), format!("removing the store changed the media content: {t} [{}]", asset.desc)),
        }
    }
    // ---- remove on the written asset
    if let Some(w) = &w {
        let known_after_write = known_bmff_layout; // the write keeps the top-level box order
        match vh::catch(|| c2pa::verif_hooks::remove_manifest(fmt, w)) {
            Err(p) => {
                run.count(&format!("{kind}:remove-written:panic"));
                fnd.0.push(panic_fail(kind, known_after_write, "remove_cai_store_from_stream on the written asset", &p));
            }
            Ok(Err(e)) => {
                run.count(&format!("{kind}:remove-written:err"));
                fnd.push(format!("C09:remove-after-write-fails:{kind}"), format!("removing the store that was just written fails: {e:?}"));
            }
            Ok(Ok(rw)) => {
                run.count(&format!("{kind}:remove-written:ok"));
                if let Some(ra) = &ra {
                    // (2) content
                    let mut content_equal = false;
                    match compare(kind, fmt, ra, &rw) {
                        Ok(cl) => {
                            content_equal = cl.is_empty();
                            for (s, t) in cl {
                                fnd.push(s, format!("remove(write(A)) vs remove(A): {t}"));
                            }
                        }
                        Err(t) => fnd.push(changed_sig(c), format!("remove(write(A)) and remove(A) differ in media content: {t} [{}]", asset.desc)),
                    }
                    // (3) bytes
                    if content_equal {
                        if &rw == ra {
                            run.count(&format!("{kind}:remove-eq:bytes-equal"));
                        } else {
                            run.count(&format!("{kind}:remove-eq:bytes-differ"));
                            let still = walk::manifest_spans(kind, &rw).map(|v| !v.is_empty()).unwrap_or(false);
                            let still_a = walk::manifest_spans(kind, ra).map(|v| !v.is_empty()).unwrap_or(false);
                            let i = rw.iter().zip(ra.iter()).position(|(x, y)| x != y).unwrap_or(rw.len().min(ra.len()));
                            let unit = walk::walk(kind, &rw).ok().and_then(|u| u.into_iter().find(|u| u.start <= i && i < u.start + u.len).map(|u| u.kind)).unwrap_or_else(|| "?".into());
                            let ex = |v: &[u8]| {
                                let e = &v[i.min(v.len())..(i + 24).min(v.len())];
                                if fam == "svg" { format!("{:?}", String::from_utf8_lossy(e)) } else { hex::encode(e) }
                            };
                            let what = format!("remove(write(A)) has {} bytes, remove(A) has {} bytes; first difference at offset {i} (unit {unit} of remove(write(A))): {} vs {} [{}]", rw.len(), ra.len(), ex(&rw), ex(ra), asset.desc);
                            const MD: &str = "<metadata></metadata>";
                            const NS: &str = " xmlns:c2pa=\"http://c2pa.org/manifest\"";
                            let store_left = vh::sdk::find_sub(&rw, &store).is_some();
                            if still && !still_a {
                                fnd.push(format!("C09:remove-keeps-manifest:{kind}"), format!("the store written is still embedded after removal; {what}"));
                            } else if still && still_a {
                                fnd.push(format!("C09:remove-keeps-manifest:{kind}"), format!("removal leaves a store in both assets and they differ; {what}"));
                            } else if store_left {
                                fnd.push(format!("C09:remove-leaves-store-bytes:{kind}"), format!("the {} store bytes written are still present verbatim (unreferenced) after removal; {what}", store.len()));
                            } else if fam == "svg" && (String::from_utf8_lossy(&rw).replacen(NS, "", 1).as_bytes() == &ra[..] || String::from_utf8_lossy(&rw).replacen(NS, "", 1).replacen(MD, "", 1).as_bytes() == &ra[..]) {
                                fnd.push("C09:remove-leaves-scaffold:svg", format!("the xmlns:c2pa declaration (and the empty <metadata> element) added by embedding stay in the file after removal; {what}"));
                            } else {
                                fnd.push(format!("C09:remove-bytes-differ:{kind}"), what);
                            }
                        }
                    }
                }
            }
        }
    }
    for f in &fnd.0 {
        mkreg(&if c.variant.is_empty() { format!("embed_remove:{kind}") } else { "variants".to_string() }, c, a, f);
    }
    if survey() {
        for f in &fnd.0 {
            run.count(&format!("survey:{}", f.signature));
            if run.hist_get(&format!("survey:{}", f.signature)) <= 3 {
                run.note(format!("{} :: {} :: {:?}", f.signature, f.what, Case { asset_hex: None, ..c.clone() }));
            }
        }
        return Ok(());
    }
    fnd.verdict(run)
}

fn strategy(kind: &'static str) -> impl Strategy<Value = Case> {
    (any::<u64>(), 0usize..2500, 0u8..4, 0usize..2500, 0u8..6, 0usize..3000, 0usize..16, 0usize..16, 0u8..10).prop_map(move |(seed, size, emode, elen, rel, d, fi, wi, tw)| {
        let fam = walk::family(kind).unwrap_or("");
        let existing = if emode == 0 { None } else { Some(MIN_STORE + elen) };
        let base = existing.unwrap_or(MIN_STORE + elen);
        let store_len = match rel {
            0 => base,
            1 => base.saturating_sub(1 + d).max(MIN_STORE),
            2 => base + 1 + d,
            3 => MIN_STORE,
            4 if fam == "jpeg" => 65_400 + d, // around the APP11 segment split
            4 => base + 1 + (d % 16),
            _ => MIN_STORE + d,
        };
        let formats = formats_of(kind);
        let wants = wants_of(kind, existing.is_some());
        let tweak = if fam == "riff" {
            match tw {
                7 => Tweak::Trailing { n: 1 + d % 9 },
                8 => Tweak::PadNonZero,
                _ => Tweak::None,
            }
        } else {
            Tweak::None
        };
        Case {
            kind: kind.to_string(),
            format: formats[fi % formats.len()].to_string(),
            seed,
            size_hint: 48 + size,
            existing,
            store_len,
            want: wants[wi % wants.len()].to_string(),
            variant: String::new(),
            tweak,
            asset_hex: None,
        }
    })
}

fn main() {
    vh::quiet_panics();
    let run = Run::from_args("C09", "exploration");
    run.set_rule("case = (container kind of vh::assets::KINDS, format string out of the handler's list, synthesised asset (seed, size 48..2548, optionally already carrying a 46..2546-byte store at a generated position; seed walk towards a requested layout: BMFF data in front of the C2PA box / C2PA box last / co64 / iloc, multi-page TIFF, AVI with AVIX chunks, SVG with BOM, GIF87a, ID3v2.3 ...), store length equal / smaller / larger / minimal relative to the existing store, RIFF tweaks: trailing bytes, non-zero pad byte) + the toolkit's VARIANTS as finding probes. Oracle: literal content lists of the independent walker before and after save_jumbf_to_memory / remove. Non-trivial = an absolute offset of the asset addresses bytes located before the manifest position, or an existing store changes size.");
    run.assume("vh::walk (independent container walkers) extracts units and dereferences offset tables correctly; a generated asset the walker rejects makes the run inconclusive");
    run.assume("a write or remove that returns an error is not a content change (counted, judged by C07); only successful outputs are compared");
    run.assume("fake stores (JUMBF superbox with the C2PA description box followed by random bytes) stand for real stores: no handler interprets the store on the write path except BMFF, which only looks for an update manifest");
    if survey() {
        run.inconclusive("C09_SURVEY=1: failures are only counted, never judged");
    }
    if selftest() != 0 {
        run.note(format!("VERIF_SELFTEST={} — the SDK's output is corrupted on purpose", selftest()));
    }

    let per_kind: u32 = run.scale(3000, 40000);
    for kind in assets::KINDS {
        let kind: &'static str = kind;
        let n = if kind == "avi" { per_kind * 2 } else { per_kind };
        run.drive_par(&format!("embed_remove:{kind}"), n, run.scale(4, 16), strategy(kind), |c| judge(&run, c));
    }
    // the toolkit's spec-valid layouts that the SDK's parsers are known to mis-handle
    let mut vcases = vec![];
    let nv = run.scale(20u64, 300u64);
    for (kind, variant) in assets::VARIANTS {
        for i in 0..nv {
            let existing = if i % 2 == 0 { None } else { Some(MIN_STORE + (i as usize * 37) % 900) };
            vcases.push(Case {
                kind: kind.to_string(),
                format: formats_of(kind)[0].to_string(),
                seed: run.seed ^ (i.wrapping_mul(0x1234_5677)),
                size_hint: 64 + (i as usize * 53) % 1200,
                existing: None,
                store_len: existing.unwrap_or(MIN_STORE + 100),
                want: String::new(),
                variant: variant.to_string(),
                tweak: Tweak::None,
                asset_hex: None,
            });
        }
    }
    run.drive_enum_par("variants", vcases, run.scale(4, 16), |c| judge(&run, c));
    run.extra("kinds", json!(assets::KINDS));
    if std::env::var("C09_MKREG").is_ok() {
        let dir = vh::core::verif_root().join("work").join("C09").join("mkreg");
        let _ = std::fs::create_dir_all(&dir);
        for (sig, (_, v)) in MKREG.lock().unwrap().iter() {
            let name: String = sig.chars().map(|ch| if ch.is_ascii_alphanumeric() || ch == '-' || ch == '.' { ch } else { '_' }).collect();
            let _ = std::fs::write(dir.join(format!("reg-{name}.json")), serde_json::to_string_pretty(v).unwrap());
        }
    }
    run.finish();
}
