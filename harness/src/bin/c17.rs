//! C17 — BMFF mdat hashing is independent of how the payload is chunked.
//!
//! Flow (the SDK's own `test_bmff_mdat_hashed_placeholder_workflow_complete`, public API only):
//! `Builder::placeholder("video/mp4")` → the harness writes `ftyp, free(reserve), mdat…` →
//! `set_bmff_hash_fixed_leaf_size` (optional) → `hash_bmff_mdat_bytes(id, chunk, large)` per chunk of the bytes
//! *after* each mdat box header → `update_hash_from_stream` → `sign_embeddable` → the signed C2PA `uuid` box is
//! written over the start of the `free` box (rest re-labelled `free`) → `Reader`.
//!
//! Oracle: (1) every split reads back Valid/Trusted; (2) with a fixed leaf size the leaf row recorded in the
//! signed `c2pa.hash.bmff.v3` assertion (parsed from the JUMBF of the output asset with ciborium) equals the
//! reference `sha(M[i·L..(i+1)·L])` computed with the `sha2` crate, M = the bytes of the mdat box from box
//! offset 16 (what the mandatory `/mdat` exclusion hands to the Merkle tree).

use std::io::Cursor;

use c2pa::{Builder, BuilderIntent, DigitalSourceType, Signer, SigningAlg};
use ciborium::Value as Cbor;
use proptest::prelude::*;
use serde::{Deserialize, Serialize};
use sha2::Digest;
use vh::{rng::SplitMix64, CaseResult, Fail, Run};

const FORMAT: &str = "video/mp4";

#[derive(Clone, Debug, Serialize, Deserialize, PartialEq, Eq, Hash)]
struct Mdat {
    /// payload length (bytes after the box header)
    len: usize,
    /// 64-bit `largesize` header (16 bytes) instead of the 32-bit one (8 bytes)
    large: bool,
    /// lengths of the leading chunks (each clamped to what is left); whatever remains forms one final chunk
    chunks: Vec<usize>,
}

#[derive(Clone, Debug, Serialize, Deserialize, PartialEq, Eq, Hash)]
struct Case {
    /// seeds the payload bytes
    seed: u64,
    mdats: Vec<Mdat>,
    /// fixed Merkle leaf size in KB (0 = variable leaves, one per chunk)
    leaf_kb: usize,
    /// 0 sha256, 1 sha384, 2 sha512
    alg: u8,
    /// 0 = feed mdat 0 completely, then mdat 1 …; otherwise seed of a random interleaving of the per-mdat streams
    interleave: u64,
}

fn alg_name(a: u8) -> &'static str {
    match a % 3 {
        0 => "sha256",
        1 => "sha384",
        _ => "sha512",
    }
}

fn sha(alg: u8, bytes: &[u8]) -> Vec<u8> {
    match alg % 3 {
        0 => sha2::Sha256::digest(bytes).to_vec(),
        1 => sha2::Sha384::digest(bytes).to_vec(),
        _ => sha2::Sha512::digest(bytes).to_vec(),
    }
}

impl Mdat {
    /// The chunk lengths actually fed (sum == len).
    fn split(&self) -> Vec<usize> {
        let mut left = self.len;
        let mut out = vec![];
        for c in &self.chunks {
            let c = (*c).min(left);
            out.push(c);
            left -= c;
        }
        if left > 0 {
            out.push(left);
        }
        out
    }
    fn header_len(&self) -> usize {
        if self.large {
            16
        } else {
            8
        }
    }
    /// Number of payload bytes that are *not* part of the Merkle tree (box bytes 8..16 of a 32-bit-header mdat).
    fn skip(&self) -> usize {
        16 - self.header_len()
    }
    /// 32-bit-header mdat whose leading chunks (before the first chunk longer than 8 bytes) contain a chunk of
    /// 1..=8 bytes: the input class of the known defect (computed from the input only).
    fn short_first(&self) -> bool {
        if self.large {
            return false;
        }
        for c in self.split() {
            if c > 8 {
                return false;
            }
            if c > 0 {
                return true;
            }
        }
        false
    }
    fn has_zero_chunk(&self) -> bool {
        self.split().iter().any(|c| *c == 0)
    }
    /// A zero-length chunk at a position where the variable-leaf mode records a leaf for it (anywhere for a
    /// largesize mdat; after the first chunk longer than 8 bytes for a 32-bit-header mdat).
    fn zero_length_leaf(&self) -> bool {
        let mut started = self.large;
        for c in self.split() {
            if started && c == 0 {
                return true;
            }
            if c > 8 {
                started = true;
            }
        }
        false
    }
    /// Number of bytes of this mdat that belong to the Merkle tree (box bytes from offset 16).
    fn merkle_len(&self) -> usize {
        self.len.saturating_sub(self.skip())
    }
}

// ------------------------------------------------------------------------------------------------
// tiny BMFF synthesiser
// ------------------------------------------------------------------------------------------------

struct Layout {
    bytes: Vec<u8>,
    free_at: usize,
    free_len: usize,
    /// (box start, payload start, payload len)
    mdats: Vec<(usize, usize, usize)>,
}

fn build_file(c: &Case, reserve: usize) -> Layout {
    let mut b = vec![];
    // ftyp: major isom, minor 0, compatible isom mp42
    b.extend_from_slice(&24u32.to_be_bytes());
    b.extend_from_slice(b"ftypisom");
    b.extend_from_slice(&0u32.to_be_bytes());
    b.extend_from_slice(b"isommp42");
    let free_at = b.len();
    b.extend_from_slice(&(reserve as u32).to_be_bytes());
    b.extend_from_slice(b"free");
    b.resize(free_at + reserve, 0);
    let mut rng = SplitMix64::new(c.seed ^ 0xC17);
    let mut mdats = vec![];
    for m in &c.mdats {
        let start = b.len();
        if m.large {
            b.extend_from_slice(&1u32.to_be_bytes());
            b.extend_from_slice(b"mdat");
            b.extend_from_slice(&((16 + m.len) as u64).to_be_bytes());
        } else {
            b.extend_from_slice(&((8 + m.len) as u32).to_be_bytes());
            b.extend_from_slice(b"mdat");
        }
        let p = b.len();
        b.extend_from_slice(&rng.bytes(m.len));
        mdats.push((start, p, m.len));
    }
    Layout { bytes: b, free_at, free_len: reserve, mdats }
}

// ------------------------------------------------------------------------------------------------
// reading the signed assertion back (no SDK types)
// ------------------------------------------------------------------------------------------------

/// Content of the first content box of the JUMBF superbox whose description label satisfies `want`.
fn jumbf_find(buf: &[u8], want: &dyn Fn(&str) -> bool) -> Option<Vec<u8>> {
    fn boxes(buf: &[u8]) -> Vec<(&[u8], &[u8])> {
        let mut out = vec![];
        let mut p = 0usize;
        while p + 8 <= buf.len() {
            let size = u32::from_be_bytes([buf[p], buf[p + 1], buf[p + 2], buf[p + 3]]) as usize;
            let size = if size == 0 { buf.len() - p } else { size };
            if size < 8 || p + size > buf.len() {
                break;
            }
            out.push((&buf[p + 4..p + 8], &buf[p + 8..p + size]));
            p += size;
        }
        out
    }
    for (t, payload) in boxes(buf) {
        if t != b"jumb" {
            continue;
        }
        let kids = boxes(payload);
        if let Some((t0, d)) = kids.first() {
            if *t0 == b"jumd" && d.len() > 17 {
                let rest = &d[17..];
                let end = rest.iter().position(|b| *b == 0).unwrap_or(rest.len());
                let label = String::from_utf8_lossy(&rest[..end]).to_string();
                if want(&label) {
                    return kids.get(1).map(|(_, c)| c.to_vec());
                }
            }
        }
        if let Some(v) = jumbf_find(payload, want) {
            return Some(v);
        }
    }
    None
}

#[derive(Debug, Clone, PartialEq)]
struct RecordedMap {
    local_id: u64,
    count: u64,
    fixed: Option<u64>,
    variable: Option<Vec<u64>>,
    hashes: Vec<Vec<u8>>,
}

fn cbor_get<'a>(m: &'a [(Cbor, Cbor)], key: &str) -> Option<&'a Cbor> {
    m.iter().find(|(k, _)| k.as_text() == Some(key)).map(|(_, v)| v)
}

fn cbor_u64(v: &Cbor) -> Option<u64> {
    v.as_integer().and_then(|i| u64::try_from(i).ok())
}

/// The Merkle maps of the signed BMFF hash assertion (empty when the assertion has no `merkle` field).
fn recorded_merkle(asset: &[u8]) -> Result<Vec<RecordedMap>, String> {
    let jumbf = c2pa::jumbf_io::load_jumbf_from_memory(FORMAT, asset).map_err(|e| format!("load_jumbf: {e}"))?;
    let cbor = jumbf_find(&jumbf, &|l| l.starts_with("c2pa.hash.bmff")).ok_or("no c2pa.hash.bmff assertion box")?;
    let v: Cbor = ciborium::de::from_reader(&cbor[..]).map_err(|e| format!("assertion CBOR: {e}"))?;
    let top = v.as_map().ok_or("assertion is not a map")?;
    let Some(merkle) = cbor_get(top, "merkle") else {
        return Ok(vec![]);
    };
    let mut out = vec![];
    for mm in merkle.as_array().ok_or("merkle is not an array")? {
        let m = mm.as_map().ok_or("merkle entry is not a map")?;
        let hashes = cbor_get(m, "hashes")
            .and_then(|h| h.as_array())
            .ok_or("no hashes array")?
            .iter()
            .map(|h| h.as_bytes().cloned().ok_or("hash is not a byte string"))
            .collect::<Result<Vec<_>, _>>()?;
        out.push(RecordedMap {
            local_id: cbor_get(m, "localId").and_then(cbor_u64).ok_or("no localId")?,
            count: cbor_get(m, "count").and_then(cbor_u64).ok_or("no count")?,
            fixed: cbor_get(m, "fixedBlockSize").and_then(cbor_u64),
            variable: cbor_get(m, "variableBlockSizes")
                .and_then(|a| a.as_array())
                .map(|a| a.iter().filter_map(cbor_u64).collect()),
            hashes,
        });
    }
    Ok(out)
}

// ------------------------------------------------------------------------------------------------
// the flow
// ------------------------------------------------------------------------------------------------

/// Fixture signer handed to the Context (the embeddable workflow takes its signer from there).
struct CtxSigner(c2pa::BoxedSigner);

impl Signer for CtxSigner {
    fn sign(&self, data: &[u8]) -> c2pa::Result<Vec<u8>> {
        self.0.sign(data)
    }
    fn alg(&self) -> SigningAlg {
        self.0.alg()
    }
    fn certs(&self) -> c2pa::Result<Vec<Vec<u8>>> {
        self.0.certs()
    }
    fn reserve_size(&self) -> usize {
        self.0.reserve_size()
    }
}

fn err(step: &str, e: impl std::fmt::Display, c: &Case) -> Fail {
    let class = if c.mdats.iter().any(|m| m.short_first()) { "first-chunk-1..8-bytes" } else { "other-split" };
    Fail::new(format!("C17:flow-error:{step}:{class}"), format!("{step} failed: {e}"))
}

fn judge(run: &Run, selftest: &str, c: &Case) -> CaseResult {
    let leaf = c.leaf_kb * 1024;
    // ---- coverage classes (from the input only)
    let short_first = c.mdats.iter().any(|m| m.short_first());
    let zero_chunk = c.mdats.iter().any(|m| m.has_zero_chunk());
    let zero_leaf = c.leaf_kb == 0 && c.mdats.iter().any(|m| m.zero_length_leaf());
    let one_byte_fixed = c.leaf_kb > 0 && c.mdats.iter().any(|m| m.merkle_len() == 1);
    let empty_with_other = c.mdats.iter().any(|m| m.merkle_len() == 0) && c.mdats.iter().any(|m| m.merkle_len() > 0);
    run.count(match c.leaf_kb {
        0 => "leaf_variable",
        1 => "leaf_1k",
        _ => "leaf_64k",
    });
    run.count(&format!("alg_{}", alg_name(c.alg)));
    run.count(&format!("mdats_{}", c.mdats.len()));
    if c.mdats.iter().any(|m| m.large) {
        run.count("has_largesize_mdat");
    }
    if short_first {
        run.count("first_chunk_1..8_on_32bit_mdat");
    }
    if zero_chunk {
        run.count("has_zero_length_chunk");
    }
    if zero_leaf {
        run.count("zero_length_chunk_recorded_as_variable_leaf");
    }
    if one_byte_fixed {
        run.count("one_byte_merkle_range_fixed_leaf");
    }
    if empty_with_other {
        run.count("empty_merkle_range_beside_other_mdat");
    }
    if c.interleave != 0 && c.mdats.len() > 1 {
        run.count("interleaved");
    }
    let mut off_leaf_boundary = false;
    let mut small_first = false;
    for m in &c.mdats {
        let sp = m.split();
        if let Some(f) = sp.first() {
            if *f <= 16 && sp.len() > 1 {
                small_first = true;
            }
        }
        if leaf > 0 {
            let mut at = 0usize;
            for ch in &sp[..sp.len().saturating_sub(1)] {
                at += ch;
                // position inside the Merkle byte range
                if at > m.skip() && (at - m.skip()) % leaf != 0 {
                    off_leaf_boundary = true;
                }
            }
        }
    }
    if small_first {
        run.count("first_chunk_le_16");
    }
    if off_leaf_boundary {
        run.count("boundary_off_leaf");
    }
    if small_first || off_leaf_boundary {
        run.nontrivial(c);
    }

    // ---- SDK flow
    let ctx = vh::sdk::context().with_signer(CtxSigner(vh::sdk::signer("ed25519")));
    let mut builder = Builder::from_context(ctx)
        .with_definition(vh::sdk::simple_definition("c17").to_string())
        .map_err(|e| Fail::new("C17:harness-definition", format!("{e}")))?;
    builder.set_intent(BuilderIntent::Create(DigitalSourceType::Empty));
    if c.alg % 3 != 0 {
        builder.definition.hash_alg = Some(alg_name(c.alg).to_string());
    }
    let composed = vh::catch(|| builder.placeholder(FORMAT))
        .map_err(|p| Fail::new(format!("C17:panic:{}", vh::core::panic_site(&p)), format!("placeholder: {p}")))?
        .map_err(|e| err("placeholder", e, c))?;

    // reserve: placeholder + room for the leaves (documented caller duty) + slack
    let hash_len = sha(c.alg, b"").len();
    let leaves_bound: usize = c
        .mdats
        .iter()
        .map(|m| if leaf > 0 { m.len / leaf + 2 } else { m.split().len() + 1 })
        .sum();
    let reserve = composed.len() + leaves_bound * (hash_len + 12) + 2048;
    let lay = build_file(c, reserve);

    if c.leaf_kb > 0 {
        builder.set_bmff_hash_fixed_leaf_size(c.leaf_kb);
    }
    // the per-mdat chunk streams
    let mut streams: Vec<Vec<&[u8]>> = vec![];
    for (m, (_, p, len)) in c.mdats.iter().zip(&lay.mdats) {
        let payload = &lay.bytes[*p..*p + *len];
        let mut at = 0;
        let mut v = vec![];
        for ch in m.split() {
            v.push(&payload[at..at + ch]);
            at += ch;
        }
        streams.push(v);
    }
    // order of the calls
    let mut order: Vec<(usize, usize)> = vec![];
    if c.interleave == 0 || c.mdats.len() < 2 {
        for (i, s) in streams.iter().enumerate() {
            for j in 0..s.len() {
                order.push((i, j));
            }
        }
    } else {
        let mut rng = SplitMix64::new(c.interleave);
        let mut next: Vec<usize> = vec![0; streams.len()];
        loop {
            let open: Vec<usize> = (0..streams.len()).filter(|i| next[*i] < streams[*i].len()).collect();
            if open.is_empty() {
                break;
            }
            let i = *rng.pick(&open);
            order.push((i, next[i]));
            next[i] += 1;
        }
    }
    for (k, (i, j)) in order.iter().enumerate() {
        let mut chunk = streams[*i][*j].to_vec();
        if selftest == "drop-byte" && k == 2 && !chunk.is_empty() {
            // sensitivity: a chunk-dependent corruption of what the SDK is fed (third call loses a byte)
            chunk.pop();
        }
        let large = c.mdats[*i].large;
        vh::catch(|| builder.hash_bmff_mdat_bytes(*i, &chunk, large).map(|_| ()))
            .map_err(|p| Fail::new(format!("C17:panic:{}", vh::core::panic_site(&p)), format!("hash_bmff_mdat_bytes: {p}")))?
            .map_err(|e| err("hash_bmff_mdat_bytes", e, c))?;
    }
    let mut stream = Cursor::new(lay.bytes.clone());
    vh::catch(|| builder.update_hash_from_stream(FORMAT, &mut stream).map(|_| ()))
        .map_err(|p| Fail::new(format!("C17:panic:{}", vh::core::panic_site(&p)), format!("update_hash_from_stream: {p}")))?
        .map_err(|e| err("update_hash_from_stream", e, c))?;
    let signed = vh::catch(|| builder.sign_embeddable(FORMAT))
        .map_err(|p| Fail::new(format!("C17:panic:{}", vh::core::panic_site(&p)), format!("sign_embeddable: {p}")))?
        .map_err(|e| err("sign_embeddable", e, c))?;
    if signed.len() + 8 > lay.free_len {
        return Err(Fail::new(
            "C17:harness-reserve-too-small",
            format!("signed manifest {} bytes, reserved free box {} (placeholder {})", signed.len(), lay.free_len, composed.len()),
        ));
    }
    // patch: signed uuid box at the start of the free box, the rest stays a (smaller) free box
    let mut asset = lay.bytes.clone();
    asset[lay.free_at..lay.free_at + signed.len()].copy_from_slice(&signed);
    let rest_at = lay.free_at + signed.len();
    let rest = lay.free_len - signed.len();
    asset[rest_at..rest_at + 4].copy_from_slice(&(rest as u32).to_be_bytes());
    asset[rest_at + 4..rest_at + 8].copy_from_slice(b"free");

    // ---- oracle 1: reads back Valid / Trusted
    let what_split = || {
        c.mdats
            .iter()
            .map(|m| format!("{}mdat({}){:?}", if m.large { "large-" } else { "" }, m.len, m.split()))
            .collect::<Vec<_>>()
            .join(" ")
    };
    // Degenerate-size classes first: they fail whatever the split, so they must not be attributed to the
    // (repaired) short-first-chunk defect.
    let class = if one_byte_fixed {
        "one-byte-merkle-range-fixed-leaf"
    } else if empty_with_other {
        "empty-merkle-range-beside-other-mdat"
    } else if short_first {
        "first-chunk-1..8-bytes"
    } else if zero_leaf {
        "zero-length-chunk-variable-leaf"
    } else {
        "other-split"
    };
    // The pinned validator pairs Merkle maps with mdat boxes through `HashMap::values()`, so with two or more mdat
    // boxes its answer can differ between reads of the same bytes. To keep the verdict a function of the case,
    // a multi-mdat asset is read until both answers were seen or 24 reads agree (2^-23 chance of a wrong class).
    let reads = if c.mdats.len() > 1 { 24 } else { 1 };
    let mut n_valid = 0;
    let mut invalid: Option<String> = None;
    for _ in 0..reads {
        let reader = vh::catch(|| vh::sdk::read(FORMAT, &asset))
            .map_err(|p| Fail::new(format!("C17:panic:{}", vh::core::panic_site(&p)), format!("Reader: {p}")))?
            .map_err(|e| Fail::new(format!("C17:{class}-unreadable"), format!("{} leaf_kb={} {}: Reader fails: {e}", what_split(), c.leaf_kb, alg_name(c.alg))))?;
        if vh::sdk::is_valid_or_trusted(&reader) {
            n_valid += 1;
        } else {
            invalid = Some(format!("{} {:?}", vh::sdk::state_name(reader.validation_state()), vh::sdk::failure_codes(&reader)));
        }
        if n_valid > 0 && invalid.is_some() {
            break;
        }
    }
    let mut nondeterministic: Option<Fail> = None;
    if let Some(inv) = invalid {
        if n_valid == 0 {
            return Err(Fail::new(
                format!("C17:{class}-invalid"),
                format!("{} leaf_kb={} {}: signed asset reads back {inv}", what_split(), c.leaf_kb, alg_name(c.alg)),
            ));
        }
        run.count("multi_mdat_reads_disagree");
        nondeterministic = Some(Fail::new(
            "C17:multi-mdat-validation-nondeterministic",
            format!(
                "{} leaf_kb={} {}: repeated reads of the same signed bytes disagree: Valid/Trusted and {inv}",
                what_split(),
                c.leaf_kb,
                alg_name(c.alg)
            ),
        ));
    } else {
        run.count("read_valid");
    }

    // ---- oracle 2: recorded leaves == reference leaves (fixed leaf size)
    if leaf > 0 {
        let rec = recorded_merkle(&asset).map_err(|e| Fail::new("C17:harness-assertion-unparsable", e))?;
        for (i, (m, (start, _, _))) in c.mdats.iter().zip(&lay.mdats).enumerate() {
            let box_end = start + m.header_len() + m.len;
            let from = (start + 16).min(box_end);
            let mut merkle_bytes: &[u8] = &lay.bytes[from..box_end];
            if selftest == "ref-shift" && !merkle_bytes.is_empty() {
                // sensitivity: a wrong reference (tree assumed to start one byte later)
                merkle_bytes = &merkle_bytes[1..];
            }
            let expect: Vec<Vec<u8>> = merkle_bytes.chunks(leaf).map(|l| sha(c.alg, l)).collect();
            let got = rec.iter().find(|r| r.local_id == i as u64);
            match got {
                None => {
                    if !expect.is_empty() {
                        return Err(Fail::new(
                            format!("C17:{class}-leaves-missing"),
                            format!("{}: no Merkle map recorded for mdat {i}, expected {} leaves", what_split(), expect.len()),
                        ));
                    }
                }
                Some(r) => {
                    if r.hashes != expect {
                        let first_bad = r.hashes.iter().zip(&expect).position(|(a, b)| a != b);
                        return Err(Fail::new(
                            format!("C17:{class}-leaves-differ"),
                            format!(
                                "{} leaf_kb={}: mdat {i} records {} leaves, reference has {}; first differing leaf {:?}",
                                what_split(),
                                c.leaf_kb,
                                r.hashes.len(),
                                expect.len(),
                                first_bad
                            ),
                        ));
                    }
                    if r.count as usize != expect.len() {
                        return Err(Fail::new(
                            format!("C17:{class}-leaves-differ"),
                            format!("{}: mdat {i} count {} but {} leaves", what_split(), r.count, expect.len()),
                        ));
                    }
                    // the recorded block size must reproduce the same partition of the Merkle byte range
                    let fb = r.fixed.unwrap_or(0) as usize;
                    let same_partition = fb > 0 && merkle_bytes.len().div_ceil(fb) == expect.len() && (fb == leaf || expect.len() == 1);
                    if !same_partition {
                        return Err(Fail::new(
                            format!("C17:{class}-block-size"),
                            format!("{}: mdat {i} fixedBlockSize {:?} (variable {:?}) for leaf size {leaf}", what_split(), r.fixed, r.variable),
                        ));
                    }
                }
            }
        }
        run.count("leaves_equal_reference");
    }
    match nondeterministic {
        Some(f) => Err(f),
        None => Ok(()),
    }
}

// ------------------------------------------------------------------------------------------------
// generators
// ------------------------------------------------------------------------------------------------

fn grid(seed: u64, mdats: &[(usize, bool)], which: usize, leaf_kb: usize, alg: u8) -> Vec<Case> {
    let mut v = vec![];
    for a in 0..=32usize {
        for b in 0..=16usize {
            let ms = mdats
                .iter()
                .enumerate()
                .map(|(i, (len, large))| Mdat { len: *len, large: *large, chunks: if i == which { vec![a, b] } else { vec![] } })
                .collect();
            v.push(Case { seed, mdats: ms, leaf_kb, alg, interleave: 0 });
        }
    }
    v
}

fn random_case() -> impl Strategy<Value = Case> {
    // chunk length classes, simple first
    let chunk = prop_oneof![
        3 => 9usize..40,
        3 => 0usize..9,
        2 => (0usize..4, 0usize..3).prop_map(|(k, d)| (k * 1024 + d).saturating_sub(1)),
        2 => 40usize..5000,
        1 => (1usize..4, 0usize..3).prop_map(|(k, d)| k * 65536 + d - 1),
        1 => 5000usize..120_000,
    ];
    let mdat = (
        prop_oneof![4 => 18usize..3000, 2 => 3000usize..70_000, 1 => 70_000usize..200_001, 1 => Just(8 + 1024), 1 => Just(8 + 65536), 1 => 0usize..18],
        prop::bool::weighted(0.3),
        proptest::collection::vec(chunk, 0..24),
    )
        .prop_map(|(len, large, chunks)| Mdat { len, large, chunks });
    (any::<u64>(), proptest::collection::vec(mdat, 1..3), 0usize..3, 0u8..3, prop_oneof![2 => Just(0u64), 1 => 1u64..u64::MAX]).prop_map(
        |(seed, mdats, leaf, alg, interleave)| Case { seed, mdats, leaf_kb: [0, 1, 64][leaf], alg, interleave },
    )
}

fn main() {
    vh::quiet_panics();
    let run = Run::from_args("C17", "exploration");
    let selftest = std::env::var("VERIF_SELFTEST").unwrap_or_default();
    let threads = std::thread::available_parallelism().map(|n| n.get()).unwrap_or(4).min(16);
    run.set_rule("case = (payload seed, 1-2 mdat boxes {payload length, 32-bit or 64-bit largesize header, lengths of the leading chunks; the rest is one final chunk}, fixed leaf size none|1 KB|64 KB, sha256|384|512, sequential or interleaved feeding). Grid part: every (first, second) chunk length in 0..=32 x 0..=16 for one mdat of an asset x 3 leaf modes (quick: one 70 000-byte 32-bit mdat, plus a two-mdat asset with 1 KB leaves; thorough: 6 more assets incl. largesize, two mdats, 200 KB, exact-leaf payloads). Random part: 0..23 leading chunks per mdat with lengths biased to 0..8, 9..40, k*1024+-1, k*65536+-1 and large. Non-trivial = a first chunk of <= 16 bytes followed by more data, or (fixed leaf size) a chunk boundary that is not a leaf boundary.");
    run.assume("caller contract taken from the SDK's own test: chunks are the mdat bytes after the box header (8 bytes, 16 for largesize with large_size=true), mdat ids count from 0 in file order, the fixed leaf size is set after placeholder() and before the first chunk, the caller reserves a free box of placeholder + leaves*hash_len + slack bytes and writes the signed uuid box at its start");
    run.assume("zero-length chunks are generated: the documentation of hash_bmff_mdat_bytes does not exclude them");
    run.assume("the leaf row of the signed assertion is read from the output asset's JUMBF with an own box walker + ciborium; reference leaves use the sha2 crate over the file bytes from mdat box offset 16");
    run.assume("Reader runs with the fixture roots as trust anchors; Valid or Trusted both satisfy the oracle");

    // ---- exhaustive first/second grid --------------------------------------------------------------------
    let mut cases = vec![];
    let quick_asset: Vec<(usize, bool)> = vec![(70_000, false)];
    for (li, leaf_kb) in [0usize, 1, 64].iter().enumerate() {
        cases.extend(grid(0x17_0001, &quick_asset, 0, *leaf_kb, li as u8 % 3));
    }
    // two mdat boxes (32-bit + largesize), split applied to the first, 1 KB leaves
    cases.extend(grid(0x17_0002, &[(3_000, false), (2_000, true)], 0, 1, 0));
    if !run.quick() {
        let assets: Vec<(Vec<(usize, bool)>, usize)> = vec![
            (vec![(70_000, true)], 0),
            (vec![(5_000, false)], 0),
            (vec![(3_000, false), (2_000, true)], 0),
            (vec![(2_000, true), (3_000, false)], 1),
            (vec![(200_000, false)], 0),
            (vec![(8 + 65_536, false)], 0),
        ];
        for (ai, (a, which)) in assets.iter().enumerate() {
            for (li, leaf_kb) in [0usize, 1, 64].iter().enumerate() {
                cases.extend(grid(0x17_0100 + ai as u64, a, *which, *leaf_kb, ((ai + li) % 3) as u8));
            }
        }
    }
    run.extra("grid_cases", serde_json::json!(cases.len()));
    // small splits first: the first failure per signature is then the smallest one
    cases.sort_by_key(|c| {
        let ch = &c.mdats.iter().find(|m| !m.chunks.is_empty()).map(|m| m.chunks.clone()).unwrap_or_default();
        (ch.iter().sum::<usize>(), ch.first().copied().unwrap_or(0))
    });
    run.drive_enum_par("grid", cases, threads, |c| judge(&run, &selftest, c));
    run.set_exhaustive(false);
    run.note("grid = all (first, second) chunk lengths 0..=32 x 0..=16 for the listed assets and leaf modes (complete over that grid, not over assets)");

    // ---- random multi-way splits -------------------------------------------------------------------------
    run.drive_par("random_splits", run.scale(1_500, 10_000), threads, random_case(), |c| judge(&run, &selftest, c));
    run.finish();
}
