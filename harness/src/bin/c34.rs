//! C34 — JUMBF URIs and manifest labels parse back to their parts.
//!
//! Oracle: the parts the label / URI was built from (round trip), plus an independent formatter for the
//! label text written from the C2PA URN grammar (`urn:c2pa:<uuid>[:<vendor>][:<version>[_<reason>]]`,
//! `[<vendor>:]urn:uuid:<uuid>` for 1.x). Only labels the SDK itself can produce are judged; everything
//! else (vendor with `:` `/` `=` blanks or non-ASCII, empty / over-long vendor, reason without version,
//! 1.x label with a version, free-form assertion labels outside the label grammar) is generated too but
//! only recorded (`ood_*` classes).

use c2pa::{assertions::labels as al, verif_hooks as hk};
use proptest::prelude::*;
use serde::{Deserialize, Serialize};
use vh::{CaseResult, Fail, Run};

fn selftest() -> String {
    std::env::var("VERIF_SELFTEST").unwrap_or_default()
}

#[derive(Clone, Debug, Serialize, Deserialize, PartialEq, Eq, Hash)]
enum ALabel {
    /// label text as given
    Literal(String),
    /// label produced by the SDK's own `assertions::labels::add_thumbnail_format(base, format)`
    SdkThumbnail { ingredient: bool, format: String },
}

impl ALabel {
    fn text(&self) -> String {
        match self {
            ALabel::Literal(s) => s.clone(),
            ALabel::SdkThumbnail { ingredient, format } => {
                al::add_thumbnail_format(if *ingredient { al::INGREDIENT_THUMBNAIL } else { al::CLAIM_THUMBNAIL }, format)
            }
        }
    }
}

#[derive(Clone, Debug, Serialize, Deserialize, PartialEq, Eq, Hash)]
struct Case {
    guid: String,
    is_v1: bool,
    vendor: Option<String>,
    version: Option<u64>,
    reason: Option<u64>,
    assertion: ALabel,
    databox: String,
    vc_id: String,
}

// ------------------------------------------------------------------------------------------------
// domain: what the SDK can generate (Claim::new / new_with_user_guid / conflict relabelling in store.rs,
// Claim::label_with_instance, assertion label constants, add_thumbnail_format)
// ------------------------------------------------------------------------------------------------
fn guid_ok(g: &str) -> bool {
    let b = g.as_bytes();
    b.len() == 36
        && b.iter().enumerate().all(|(i, c)| if [8, 13, 18, 23].contains(&i) { *c == b'-' } else { c.is_ascii_hexdigit() })
}

/// None = in domain, Some(class) = out of domain (recorded only)
fn vendor_ood(v: &Option<String>) -> Option<&'static str> {
    let Some(v) = v else { return None };
    if v.is_empty() {
        return Some("ood_vendor_empty");
    }
    if !v.is_ascii() {
        return Some("ood_vendor_non_ascii");
    }
    if v.bytes().any(|b| b <= 0x20 || b == 0x7f) {
        return Some("ood_vendor_blank_or_control");
    }
    if v.len() > 32 {
        return Some("ood_vendor_longer_than_32");
    }
    if v.contains(':') {
        return Some("ood_vendor_with_colon");
    }
    if v.contains('/') {
        return Some("ood_vendor_with_slash");
    }
    if v.contains('=') {
        return Some("ood_vendor_with_equals");
    }
    None
}

fn grammar_label(s: &str) -> bool {
    !s.is_empty()
        && s.split('.').all(|c| {
            let b = c.as_bytes();
            !b.is_empty() && b[0].is_ascii_alphanumeric() && b.iter().all(|x| x.is_ascii_alphanumeric() || *x == b'-' || *x == b'_')
        })
}

fn case_ood(c: &Case) -> Option<&'static str> {
    if !guid_ok(&c.guid) {
        return Some("ood_guid_shape");
    }
    if let Some(k) = vendor_ood(&c.vendor) {
        return Some(k);
    }
    if c.is_v1 && (c.version.is_some() || c.reason.is_some()) {
        return Some("ood_v1_label_with_version");
    }
    if c.version.is_none() && c.reason.is_some() {
        return Some("ood_reason_without_version");
    }
    if c.version.map(|v| usize::try_from(v).is_err()).unwrap_or(false) || c.reason.map(|v| usize::try_from(v).is_err()).unwrap_or(false) {
        return Some("ood_number_beyond_usize");
    }
    None
}

fn assertion_ood(a: &ALabel) -> Option<&'static str> {
    match a {
        // `add_thumbnail_format` answers "<base>/<subtype>" for formats other than jpeg/png/svg, but that text never
        // reaches a URI: `Assertion::label()` rebuilds thumbnail labels as <type>[.<image type>] (end-to-end witness:
        // a 1.x claim with an image/webp thumbnail is stored as plain "c2pa.thumbnail.claim"), so it is not SDK output.
        ALabel::SdkThumbnail { .. } if a.text().contains('/') => Some("ood_add_thumbnail_format_label_with_slash"),
        ALabel::SdkThumbnail { .. } => None,
        ALabel::Literal(s) => {
            if grammar_label(s) {
                None
            } else if s.contains('/') {
                Some("ood_assertion_label_with_slash")
            } else if s.contains('=') {
                Some("ood_assertion_label_with_equals")
            } else {
                Some("ood_assertion_label_outside_grammar")
            }
        }
    }
}

// ------------------------------------------------------------------------------------------------
// reference formatter (no SDK code)
// ------------------------------------------------------------------------------------------------
fn ref_label(c: &Case) -> String {
    if c.is_v1 {
        return match &c.vendor {
            Some(v) => format!("{v}:urn:uuid:{}", c.guid),
            None => format!("urn:uuid:{}", c.guid),
        };
    }
    let mut s = format!("urn:c2pa:{}", c.guid);
    if let Some(v) = &c.vendor {
        s.push(':');
        s.push_str(v);
    }
    if let Some(ver) = c.version {
        if c.vendor.is_none() && selftest() != "sep" {
            s.push(':'); // empty vendor field
        }
        s.push(':');
        s.push_str(&ver.to_string());
        if let Some(r) = c.reason {
            s.push('_');
            s.push_str(&r.to_string());
        }
    }
    s
}

fn parts_of(c: &Case) -> hk::VerifManifestParts {
    hk::VerifManifestParts {
        guid: c.guid.clone(),
        is_v1: c.is_v1,
        cgi: c.vendor.clone(),
        version: c.version.map(|v| v as usize),
        reason: c.reason.map(|v| v as usize),
    }
}

fn fail(sig: impl Into<String>, what: String) -> CaseResult {
    Err(Fail::new(sig, what))
}

/// All laws; returns the first broken one. `label_sig` lets the caller name manifest-label failures.
fn laws(c: &Case, judge_label: bool, judge_assertion: bool) -> CaseResult {
    let parts = parts_of(c);
    let label = hk::manifest_parts_to_string(&parts);
    let lv = if c.is_v1 { "v1" } else { "v2" };
    if judge_label {
        // A. text form
        let want = ref_label(c);
        if label != want {
            return fail("C34:label-text-differs-from-urn-grammar", format!("parts {parts:?} are written as {label:?}, grammar gives {want:?}"));
        }
        // B/C. parse back, bare and through a manifest URI
        for (how, input) in [("label", label.clone()), ("manifest-uri", hk::to_manifest_uri(&label))] {
            let mut back = hk::manifest_label_to_parts(&input);
            if selftest() == "swap" {
                // deliberately corrupted SDK answer
                if let Some(b) = back.as_mut() {
                    std::mem::swap(&mut b.version, &mut b.reason);
                }
            }
            if back.as_ref() != Some(&parts) {
                let sig = if c.is_v1 && c.vendor.as_deref().map(|v| v.eq_ignore_ascii_case("urn")).unwrap_or(false) {
                    "C34:v1-label-with-vendor-urn-not-parsed".to_string()
                } else if back.is_none() {
                    format!("C34:generated-label-not-parsed:{lv}")
                } else {
                    format!("C34:label-parts-changed:{lv}")
                };
                return fail(sig, format!("manifest_label_to_parts({input:?}) [{how}] = {back:?}, built from {parts:?}"));
            }
        }
        // D. manifest URI
        let u = hk::to_manifest_uri(&label);
        if u != format!("self#jumbf=/c2pa/{label}") {
            return fail("C34:manifest-uri-form", format!("to_manifest_uri({label:?}) = {u:?}"));
        }
        if hk::manifest_label_from_uri(&u).as_deref() != Some(label.as_str()) {
            return fail("C34:manifest-uri-roundtrip", format!("manifest_label_from_uri({u:?}) = {:?}", hk::manifest_label_from_uri(&u)));
        }
        // F. signature URI
        let s = hk::to_signature_uri(&label);
        if hk::manifest_label_from_uri(&s).as_deref() != Some(label.as_str()) || hk::box_name_from_uri(&s).as_deref() != Some("c2pa.signature") {
            return fail(
                "C34:signature-uri-roundtrip",
                format!("{s:?} -> manifest {:?}, box {:?}", hk::manifest_label_from_uri(&s), hk::box_name_from_uri(&s)),
            );
        }
        for u in [&u, &s] {
            let r = hk::to_relative_uri(u);
            let back = hk::to_absolute_uri(&label, &r);
            if &back != u {
                return fail("C34:relative-absolute-roundtrip", format!("to_absolute_uri(L, to_relative_uri({u:?}) = {r:?}) = {back:?}"));
            }
        }
    }
    if judge_label && judge_assertion {
        let a = c.assertion.text();
        // E. assertion URI
        let u = hk::to_assertion_uri(&label, &a);
        let (m, al_, bx) = (hk::manifest_label_from_uri(&u), hk::assertion_label_from_uri(&u), hk::box_name_from_uri(&u));
        if m.as_deref() != Some(label.as_str()) {
            return fail("C34:assertion-uri-loses-manifest-label", format!("{u:?} -> manifest {m:?}"));
        }
        if al_.as_deref() != Some(a.as_str()) || bx.as_deref() != Some(a.as_str()) {
            return fail(
                "C34:assertion-uri-roundtrip",
                format!("assertion label {a:?} (from {:?}): to_assertion_uri = {u:?}, assertion_label_from_uri = {al_:?}, box_name_from_uri = {bx:?}", c.assertion),
            );
        }
        let r = hk::to_relative_uri(&u);
        if r != format!("self#jumbf=c2pa.assertions/{a}") {
            return fail("C34:relative-uri-form", format!("to_relative_uri({u:?}) = {r:?}"));
        }
        if hk::assertion_label_from_uri(&r).as_deref() != Some(a.as_str()) {
            return fail("C34:relative-assertion-uri-roundtrip", format!("assertion_label_from_uri({r:?}) = {:?}", hk::assertion_label_from_uri(&r)));
        }
        let back = hk::to_absolute_uri(&label, &r);
        if back != u || hk::to_absolute_uri(&label, &u) != u {
            return fail("C34:relative-absolute-roundtrip", format!("to_absolute_uri(L, {r:?}) = {back:?}, expected {u:?}"));
        }
        for x in [&u, &r] {
            let n1 = hk::to_normalized_uri(x);
            if hk::to_normalized_uri(&n1) != n1 || Some(n1.as_str()) != x.strip_prefix("self#jumbf=") {
                return fail("C34:normalized-uri-not-idempotent", format!("to_normalized_uri({x:?}) = {n1:?}, again = {:?}", hk::to_normalized_uri(&n1)));
            }
        }
    }
    if judge_label && grammar_label(&c.databox) {
        // G. data box URI
        let d = &c.databox;
        let u = hk::to_databox_uri(&label, d);
        let (m, al_, bx) = (hk::manifest_label_from_uri(&u), hk::assertion_label_from_uri(&u), hk::box_name_from_uri(&u));
        if m.as_deref() != Some(label.as_str()) || al_.as_deref() != Some(d.as_str()) || bx.as_deref() != Some(d.as_str()) {
            return fail("C34:databox-uri-roundtrip", format!("{u:?} -> manifest {m:?}, label {al_:?}, box {bx:?}"));
        }
        let r = hk::to_relative_uri(&u);
        if hk::to_absolute_uri(&label, &r) != u || hk::box_name_from_uri(&r).as_deref() != Some(d.as_str()) {
            return fail("C34:relative-absolute-roundtrip", format!("databox {u:?} -> relative {r:?} -> {:?}", hk::to_absolute_uri(&label, &r)));
        }
    }
    Ok(())
}

fn judge(run: &Run, c: &Case) -> CaseResult {
    let ood = case_ood(c);
    let a_ood = assertion_ood(&c.assertion);
    // class bookkeeping
    run.count(match (c.is_v1, c.vendor.is_some(), c.version.is_some(), c.reason.is_some()) {
        (true, false, ..) => "label_v1_plain",
        (true, true, ..) => "label_v1_vendor",
        (false, false, false, _) => "label_v2_plain",
        (false, true, false, _) => "label_v2_vendor",
        (false, false, true, false) => "label_v2_version",
        (false, false, true, true) => "label_v2_version_reason",
        (false, true, true, false) => "label_v2_vendor_version",
        (false, true, true, true) => "label_v2_vendor_version_reason",
    });
    match &c.assertion {
        ALabel::SdkThumbnail { .. } => run.count(if a_ood.is_some() { "assertion_ood" } else { "assertion_sdk_thumbnail" }),
        ALabel::Literal(s) => run.count(if a_ood.is_some() {
            "assertion_ood"
        } else if s.contains("__") {
            "assertion_with_instance"
        } else {
            "assertion_plain"
        }),
    }
    if let Some(k) = ood.or(a_ood) {
        // recorded, never judged: does the round trip happen to work?
        let r = vh::catch(|| laws(c, true, true));
        let outcome = match r {
            Ok(Ok(())) => "roundtrip_ok",
            Ok(Err(_)) => "roundtrip_lost",
            Err(_) => "panic",
        };
        run.count(&format!("{k}:{outcome}"));
        if ood.is_some() {
            return Ok(());
        }
        // the manifest label is in domain, only the assertion label is not: judge the label laws
        return match vh::catch(|| laws(c, true, false)) {
            Ok(r) => r,
            Err(p) => fail(format!("C34:panic:{}", vh::core::panic_site(&p)), format!("{p} on {c:?}")),
        };
    }
    run.count("in_domain");
    let inst = matches!(&c.assertion, ALabel::Literal(s) if s.contains("__")) || c.databox.contains("__");
    if (c.vendor.is_some() && c.version.is_some()) || inst {
        run.nontrivial(c);
    }
    // credential URIs are not part of the property text: recorded only
    if let Ok(ok) = vh::catch(|| {
        let l = hk::manifest_parts_to_string(&parts_of(c));
        let u = hk::to_verifiable_credential_uri(&l, &c.vc_id);
        hk::manifest_label_from_uri(&u).as_deref() == Some(l.as_str()) && hk::box_name_from_uri(&u).as_deref() == Some(c.vc_id.as_str())
    }) {
        run.count(if ok { "credential_uri:roundtrip_ok" } else { "credential_uri:roundtrip_lost" });
    }
    match vh::catch(|| laws(c, true, true)) {
        Ok(r) => r,
        Err(p) => fail(format!("C34:panic:{}", vh::core::panic_site(&p)), format!("{p} on {c:?}")),
    }
}

// ------------------------------------------------------------------------------------------------
// generator
// ------------------------------------------------------------------------------------------------
const VENDOR_DICT: [&str; 12] = [
    "acme",
    "contentauth",
    "adobe",
    "test",
    "claim_capture",
    "update_manifest_vendor",
    "com.example",
    "org.contentauth.c2patool",
    "merged_manifests",
    "a",
    "x-1",
    "truepic.lens",
];
/// tokens that also occur as syntax in labels / URIs
const VENDOR_SPECIAL: [&str; 22] = [
    "urn", "uuid", "c2pa", "urn_uuid", "c2pa.assertions", "c2pa.signature", "self#jumbf", "0", "1", "2_1", "_", "-", ".", "..", "v1", "1_", "_1", "#",
    "jumbf", "c2pa.claim", "urn.c2pa", "00000000-0000-4000-8000-000000000000",
];
const CONSERVATIVE: &[u8] = b"abcdefghijklmnopqrstuvwxyz0123456789._-";
const ALNUM_MIXED: &[u8] = b"aAbBcCxXyYzZ019";
const COMP_FIRST: &[u8] = b"abcxyzABCXYZ0123456789";
const COMP_REST: &[u8] = b"abcxyzABCXYZ0123456789-_";

fn printable() -> Vec<u8> {
    (0x21u8..=0x7e).filter(|b| ![b':', b'/', b'='].contains(b) && !b.is_ascii_uppercase()).collect()
}

const SDK_LABELS: [&str; 34] = [
    al::ACTIONS,
    al::INGREDIENT,
    al::DATA_HASH,
    al::BOX_HASH,
    al::BMFF_HASH,
    al::COLLECTION_HASH,
    al::CLAIM_THUMBNAIL,
    al::INGREDIENT_THUMBNAIL,
    al::JPEG_CLAIM_THUMBNAIL,
    al::JPEG_INGREDIENT_THUMBNAIL,
    al::PNG_CLAIM_THUMBNAIL,
    al::PNG_INGREDIENT_THUMBNAIL,
    al::SVG_CLAIM_THUMBNAIL,
    al::SVG_INGREDIENT_THUMBNAIL,
    al::ASSERTION_METADATA,
    al::SOFT_BINDING,
    al::CLOUD_DATA,
    al::DEPTHMAP_GDEPTH,
    al::ASSET_TYPE,
    al::EMBEDDED_DATA,
    al::ICON,
    al::EXIF,
    al::IPTC_PHOTO_METADATA,
    al::SCHEMA_ORG,
    al::CLAIM_REVIEW,
    al::CREATIVE_WORK,
    al::TIMESTAMP,
    al::CERTIFICATE_STATUS,
    al::ASSET_REFERENCE,
    al::MULTI_ASSET_HASH,
    al::METADATA,
    al::CAWG_METADATA,
    al::ARCHIVE_METADATA,
    "cawg.identity",
];
/// formats the SDK writes itself (`ThumbnailFormat` Display = MIME type) and the short forms its own
/// `add_thumbnail_format` documents
const THUMB_FORMATS: [&str; 14] = [
    "image/jpeg",
    "image/png",
    "image/svg+xml",
    "jpeg",
    "jpg",
    "png",
    "svg",
    "IMAGE/JPEG",
    "image/webp",
    "image/gif",
    "image/tiff",
    "webp",
    "gif",
    "tiff",
];
const VC_IDS: [&str; 5] = [
    "did:nppa:eb1bb9934d9896a374c384521410c7f14",
    "did:web:example.com",
    "urn:uuid:3fad1ead-8ed5-44d0-873b-ea5f58adea82",
    "https://example.com/credentials/3732",
    "did:key:z6Mk=",
];

fn pick_str(cs: &[u8], idx: &[usize], min: usize, max: usize) -> String {
    let mut s: String = idx.iter().take(max).map(|i| cs[i % cs.len()] as char).collect();
    while s.len() < min {
        s.push(cs[0] as char);
    }
    s
}

fn component(words: &[u16], k: usize) -> String {
    let w = words[k % words.len()] as usize;
    let len = 1 + (w >> 12) % 6;
    let mut s = String::new();
    s.push(COMP_FIRST[w % COMP_FIRST.len()] as char);
    for j in 1..len {
        s.push(COMP_REST[(w / (j * 7 + 1)) % COMP_REST.len()] as char);
    }
    s
}

#[allow(clippy::too_many_arguments)]
fn build(
    gb: [u8; 16],
    gstyle: u8,
    layout: u8,
    ver_w: u64,
    rea_w: u64,
    vsel: u8,
    vch: Vec<usize>,
    asel: u8,
    aw: Vec<u16>,
    inst: u32,
    dinst: u32,
    vcsel: u8,
) -> Case {
    // --- guid: what Uuid::new_v4().hyphenated() prints, sometimes upper case (labels read from files are re-emitted verbatim)
    let u = uuid::Builder::from_random_bytes(gb).into_uuid();
    let mut guid = u.hyphenated().to_string();
    match gstyle {
        0..=15 => {}
        16..=18 => guid = guid.to_uppercase(),
        _ => guid = "00000000-0000-4000-8000-000000000000".to_string(),
    }
    // --- vendor
    let first = vch.first().copied().unwrap_or(0);
    let vendor = match vsel {
        0..=3 | 38 | 39 => None,
        4..=9 => Some(VENDOR_DICT[first % VENDOR_DICT.len()].to_string()),
        10..=13 => Some(VENDOR_SPECIAL[first % VENDOR_SPECIAL.len()].to_string()),
        14..=21 => Some(pick_str(CONSERVATIVE, &vch, 1, 32)),
        22..=25 => Some(pick_str(&printable(), &vch, 1, 32)),
        26..=27 => Some(pick_str(CONSERVATIVE, &vch, 32, 32)),
        28..=29 => Some(pick_str(ALNUM_MIXED, &vch, 1, 32)),
        30 => Some(String::new()),
        31 => Some(pick_str(CONSERVATIVE, &vch, 33, 40)),
        32 => Some(format!("{}:{}", pick_str(CONSERVATIVE, &vch, 1, 8), first % 10)),
        33 => Some(format!("{}/{}", pick_str(CONSERVATIVE, &vch, 1, 8), first % 10)),
        34 => Some(format!("{}={}", pick_str(CONSERVATIVE, &vch, 1, 8), first % 10)),
        35 => Some(format!("{} {}", pick_str(CONSERVATIVE, &vch, 1, 8), first % 10)),
        36 => Some(format!("{}é日", pick_str(CONSERVATIVE, &vch, 1, 8))),
        _ => Some(format!("{}\u{1}", pick_str(CONSERVATIVE, &vch, 1, 8))),
    };
    // --- version / reason
    let num = |w: u64| -> u64 {
        match w % 4 {
            0 | 1 => (w >> 2) % 8,
            2 => (w >> 2) % 100_000,
            _ => w >> 2,
        }
    };
    let (is_v1, version, reason) = match layout {
        0..=5 => (true, None, None),
        6..=11 => (false, None, None),
        12..=19 => (false, Some(num(ver_w)), None),
        20..=33 => (false, Some(num(ver_w)), Some(num(rea_w))),
        34 | 35 => (false, None, Some(num(rea_w))),
        36 => (true, Some(num(ver_w)), None),
        37 => (true, Some(num(ver_w)), Some(num(rea_w))),
        38 => (false, Some(usize::MAX as u64), Some(usize::MAX as u64)),
        _ => (false, Some(0), Some(0)),
    };
    // --- assertion label
    let w0 = aw[0] as usize;
    let with_inst = |s: String| if inst == 0 { s } else { format!("{s}__{inst}") };
    let grammar = |n: usize| -> String { (0..n).map(|k| component(&aw, k)).collect::<Vec<_>>().join(".") };
    let assertion = match asel {
        0..=7 => ALabel::Literal(SDK_LABELS[w0 % SDK_LABELS.len()].to_string()),
        8..=11 => ALabel::Literal(format!("{}.v{}", SDK_LABELS[w0 % SDK_LABELS.len()], 1 + (w0 >> 8) % 4)),
        12..=14 => ALabel::Literal(with_inst(SDK_LABELS[w0 % SDK_LABELS.len()].to_string())),
        15..=17 => ALabel::Literal(with_inst(format!("{}.v{}", SDK_LABELS[w0 % SDK_LABELS.len()], 1 + (w0 >> 8) % 4))),
        // Claim::label_with_instance puts the instance before the image type for ingredient thumbnails
        18 | 19 => ALabel::Literal(format!("c2pa.thumbnail.ingredient__{}.{}", inst.max(1), ["jpeg", "png", "svg"][w0 % 3])),
        20..=24 => ALabel::Literal(grammar(2 + aw.len() % 5)),
        25..=27 | 38 | 39 => ALabel::Literal(with_inst(format!("{}.v{}", grammar(2 + aw.len() % 4), 1 + w0 % 3))),
        28..=33 => ALabel::SdkThumbnail { ingredient: w0 % 2 == 1, format: THUMB_FORMATS[(w0 >> 1) % THUMB_FORMATS.len()].to_string() },
        34 => ALabel::Literal(format!("{}/{}", grammar(2), component(&aw, 5))),
        35 => ALabel::Literal(format!("{}={}", grammar(2), component(&aw, 5))),
        36 => ALabel::Literal(String::new()),
        _ => ALabel::Literal(format!("{} é", grammar(2))),
    };
    let databox = if dinst == 0 { "c2pa.data".to_string() } else { format!("c2pa.data__{dinst}") };
    Case { guid, is_v1, vendor, version, reason, assertion, databox, vc_id: VC_IDS[vcsel as usize % VC_IDS.len()].to_string() }
}

// ------------------------------------------------------------------------------------------------
// optional end-to-end witness (VERIF_C34_E2E=1): what a 1.x claim with a non jpeg/png/svg thumbnail does
// ------------------------------------------------------------------------------------------------
fn e2e_witness(run: &Run) {
    use std::io::Cursor;
    e2e_vendor_urn(run);
    let certs = std::fs::read("/repo/sdk/tests/fixtures/certs/es256.pub").expect("cert");
    let key = std::fs::read("/repo/sdk/tests/fixtures/certs/es256.pem").expect("key");
    let src = std::fs::read("/repo/sdk/tests/fixtures/CA.jpg").expect("CA.jpg");
    for (cv, fmt) in [(1u8, "image/png"), (1, "image/webp"), (1, "webp"), (2, "image/webp")] {
        let r = vh::catch(|| -> Result<String, String> {
            let signer = c2pa::create_signer::from_keys(&certs, &key, c2pa::SigningAlg::Es256, None).map_err(|e| format!("signer: {e}"))?;
            let def = serde_json::json!({
                "claim_version": cv,
                "title": "t",
                "format": "image/jpeg",
                "claim_generator_info": [{"name": "verif", "version": "1"}],
                "thumbnail": {"format": fmt, "identifier": "thumb"},
                "assertions": if cv == 2 { serde_json::json!([{"label":"c2pa.actions","data":{"actions":[{"action":"c2pa.created","digitalSourceType":"http://cv.iptc.org/newscodes/digitalsourcetype/digitalCapture"}]}}]) } else { serde_json::json!([]) }
            });
            let mut b = c2pa::Builder::from_json(&def.to_string()).map_err(|e| format!("builder: {e}"))?;
            b.add_resource("thumb", Cursor::new(vec![1u8, 2, 3, 4])).map_err(|e| format!("resource: {e}"))?;
            let mut out = Cursor::new(Vec::new());
            b.sign(&*signer, "image/jpeg", &mut Cursor::new(src.clone()), &mut out).map_err(|e| format!("sign: {e}"))?;
            out.set_position(0);
            let rd = c2pa::Reader::from_stream("image/jpeg", &mut out).map_err(|e| format!("read: {e}"))?;
            let labels: Vec<String> = rd.active_manifest().map(|m| m.assertions().iter().map(|a| a.label().to_string()).collect()).unwrap_or_default();
            let fails: Vec<String> = rd
                .validation_results()
                .and_then(|v| v.active_manifest())
                .map(|m| m.failure.iter().map(|s| format!("{} {}", s.code(), s.url().unwrap_or(""))).collect())
                .unwrap_or_default();
            let thumb = rd.active_manifest().and_then(|m| m.thumbnail_ref()).map(|t| t.identifier.clone());
            let fetched = thumb.as_ref().map(|id| {
                let mut buf = Cursor::new(Vec::new());
                rd.resource_to_stream(id, &mut buf).map(|n| format!("{n} bytes")).map_err(|e| e.to_string())
            });
            let detailed = format!("{:?}", rd).lines().filter(|l| l.contains("thumbnail")).map(|l| l.trim().to_string()).collect::<Vec<_>>().join(" | ");
            Ok(format!("state={:?} thumbnail_ref={thumb:?} fetch={fetched:?} failures={fails:?} assertions={labels:?} json-thumbnail-lines={detailed}", rd.validation_state()))
        });
        let line = format!("e2e claim_version={cv} thumbnail format {fmt:?}: {r:?}");
        println!("{line}");
        run.note(line);
    }
}

/// What a 1.x manifest made with vendor "urn" looks like to the SDK itself.
fn e2e_vendor_urn(run: &Run) {
    use std::io::Cursor;
    let certs = std::fs::read("/repo/sdk/tests/fixtures/certs/es256.pub").expect("cert");
    let key = std::fs::read("/repo/sdk/tests/fixtures/certs/es256.pem").expect("key");
    let src = std::fs::read("/repo/sdk/tests/fixtures/CA.jpg").expect("CA.jpg");
    for vendor in ["acme", "urn", "URN"] {
        let r = vh::catch(|| -> Result<String, String> {
            let signer = c2pa::create_signer::from_keys(&certs, &key, c2pa::SigningAlg::Es256, None).map_err(|e| format!("signer: {e}"))?;
            let def = serde_json::json!({"claim_version": 1, "vendor": vendor, "title": "t", "format": "image/jpeg",
                "claim_generator_info": [{"name": "verif", "version": "1"}], "thumbnail": {"format": "none", "identifier": "none"}});
            let mut b = c2pa::Builder::from_json(&def.to_string()).map_err(|e| format!("builder: {e}"))?;
            let mut out = Cursor::new(Vec::new());
            b.sign(&*signer, "image/jpeg", &mut Cursor::new(src.clone()), &mut out).map_err(|e| format!("sign: {e}"))?;
            out.set_position(0);
            let rd = c2pa::Reader::from_stream("image/jpeg", &mut out).map_err(|e| format!("read: {e}"))?;
            let label = rd.active_label().unwrap_or("").to_string();
            let parsed = hk::manifest_label_to_parts(&label);
            let state = rd.validation_state();
            let mut b2 = rd.into_builder().map_err(|e| format!("into_builder: {e}"))?;
            let mut out2 = Cursor::new(Vec::new());
            let resign = b2.sign(&*signer, "image/jpeg", &mut Cursor::new(src.clone()), &mut out2).map(|_| "ok".to_string()).unwrap_or_else(|e| format!("Err({e})"));
            Ok(format!("label={label:?} state={state:?} manifest_label_to_parts={parsed:?} into_builder+sign={resign}"))
        });
        let line = format!("e2e claim_version=1 vendor {vendor:?}: {r:?}");
        println!("{line}");
        run.note(line);
    }
}

fn main() {
    vh::quiet_panics();
    let run = Run::from_args("C34", "exploration");
    run.set_rule("cases = (uuid-v4 text, 1.x/2.x layout, vendor, version, reason, assertion label, data box id, credential id). In domain (judged) = what the SDK can emit: hyphenated uuid; vendor absent or 1..32 printable ASCII bytes without ':' '/' '='; 1.x labels without version; reason only together with version; assertion labels from the SDK's constants / the C2PA label grammar with .vN and __N suffixes, the ingredient-thumbnail instance form, and labels made by the SDK's add_thumbnail_format. Everything else is generated but only recorded (ood_* classes). Non-trivial = vendor and version both present, or a label with an instance suffix.");
    run.assume("labels are produced by ManifestParts::to_string / Claim::new (lower-cased vendor, Uuid hyphenated) and Claim::label_with_instance; free-form vendor or assertion strings containing URI syntax are caller errors, not SDK output");
    run.assume("thumbnail formats are the MIME strings the SDK's own ThumbnailFormat prints plus the short forms add_thumbnail_format documents");

    if std::env::var("VERIF_C34_E2E").is_ok() {
        e2e_witness(&run);
    }

    let strat = (
        proptest::array::uniform16(any::<u8>()),
        0u8..20,
        0u8..40,
        any::<u64>(),
        any::<u64>(),
        0u8..40,
        proptest::collection::vec(0usize..95, 0..=40),
        0u8..40,
        proptest::collection::vec(any::<u16>(), 1..=8),
        prop_oneof![2 => Just(0u32), 3 => 1u32..4, 1 => 1u32..400],
        0u32..4,
        0u8..5,
    )
        .prop_map(|(gb, gs, lay, vw, rw, vs, vch, asel, aw, inst, dinst, vc)| build(gb, gs, lay, vw, rw, vs, vch, asel, aw, inst, dinst, vc));
    let threads = std::thread::available_parallelism().map(|n| n.get()).unwrap_or(4).min(16);

    // every special vendor token x every layout, deterministically (tokens would be rare in the random part)
    let mut fixed = vec![];
    for v in VENDOR_SPECIAL.iter().chain(VENDOR_DICT.iter()) {
        for (is_v1, version, reason) in [(true, None, None), (false, None, None), (false, Some(2u64), None), (false, Some(2), Some(1))] {
            for a in ["c2pa.actions", "c2pa.ingredient.v3__2", "c2pa.thumbnail.ingredient__1.jpeg"] {
                fixed.push(Case {
                    guid: "3fad1ead-8ed5-44d0-873b-ea5f58adea82".into(),
                    is_v1,
                    vendor: Some(v.to_string()),
                    version,
                    reason,
                    assertion: ALabel::Literal(a.into()),
                    databox: "c2pa.data__1".into(),
                    vc_id: VC_IDS[0].into(),
                });
            }
        }
    }
    for f in THUMB_FORMATS {
        for ingredient in [false, true] {
            fixed.push(Case {
                guid: "3fad1ead-8ed5-44d0-873b-ea5f58adea82".into(),
                is_v1: true,
                vendor: Some("acme".into()),
                version: None,
                reason: None,
                assertion: ALabel::SdkThumbnail { ingredient, format: f.to_string() },
                databox: "c2pa.data".into(),
                vc_id: VC_IDS[0].into(),
            });
        }
    }
    run.drive_enum("token_matrix", fixed, |c| judge(&run, c));
    run.drive_par("random_labels", run.scale(3_000_000, 60_000_000), threads, strat, |c| judge(&run, c));
    run.finish();
}
