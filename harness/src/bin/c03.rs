//! C03 — signing round trip: signed output validates and reports what was signed.
//!
//! Cases = (writable fixture asset) × (generated manifest definition, `vh::defgen`) × signing alg ×
//! hash alg × settings (compressed manifests, claim v1/v2, embedded / sidecar / remote+embedded,
//! thumbnails).  Oracle = round trip against an *independent expectation*: `vh::defgen::expand`
//! computes from the generated data what a reader has to report; the SDK is never asked what it
//! "meant".  Supplied-vs-reported data is compared through the typed accessors
//! (`Reader::active_manifest()`, `Manifest::assertions()[i].value()`, `ingredients()`, …), never
//! through `Reader::json()` (display projection: numeric arrays become base64).

use std::{collections::BTreeMap, io::Cursor, sync::Mutex};

use c2pa::{Manifest, Reader};
use proptest::prelude::*;
use serde::{Deserialize, Serialize};
use serde_json::{json, Value};
use vh::{
    defgen::{self, DefOpts, DefSpec, GenDef, IntentKind, Match},
    rng::SplitMix64,
    sdk, CaseResult, Fail, Run,
};

#[derive(Clone, Debug, Serialize, Deserialize, PartialEq, Eq, Hash)]
struct Case {
    /// index into `sdk::writable_fixtures()`
    asset: u8,
    /// index into `sdk::ALGS`
    alg: u8,
    compress: bool,
    /// 0 embedded, 1 sidecar (`set_no_embed`), 2 remote URL + embedded (`set_remote_url`)
    embed: u8,
    thumbs: bool,
    spec: DefSpec,
}

const REMOTE_URL: &str = "https://verif.example/manifests/c03.c2pa";

fn opts() -> DefOpts {
    DefOpts { allow_update: true, ..DefOpts::default() }
}

fn err_variant(e: &c2pa::Error) -> String {
    let d = format!("{e:?}");
    d.split(|c: char| c == '(' || c == '{' || c == ' ').next().unwrap_or("Error").to_string()
}

// ---- fixtures ------------------------------------------------------------------------------------

struct Assets {
    list: Vec<(&'static str, &'static str, Vec<u8>)>,
    /// the same assets signed once by the harness (sources for Update manifests), made lazily
    signed: Mutex<BTreeMap<usize, Option<Vec<u8>>>>,
}

impl Assets {
    fn load() -> Assets {
        let list = sdk::writable_fixtures()
            .into_iter()
            .map(|(l, m, f)| {
                // tiff_poc.tiff is a hostile proof-of-concept file ("too many subfiles"), not a supported source
                let f = if l == "tiff" { "TUSCANY.TIF" } else { f };
                (l, m, if f.is_empty() { vec![] } else { sdk::fixture(f) })
            })
            .collect();
        Assets { list, signed: Mutex::new(BTreeMap::new()) }
    }
    fn signed(&self, i: usize) -> Option<Vec<u8>> {
        let mut g = self.signed.lock().unwrap();
        if let Some(v) = g.get(&i) {
            return v.clone();
        }
        let (_, mime, bytes) = &self.list[i];
        let v = sdk::sign_simple(mime, bytes, "update source").ok();
        g.insert(i, v.clone());
        v
    }
}

/// Is the chain of fixture credential `alg` anchored by the fixture root bundle?  Decided with the
/// `openssl` crate (X509 store verification), not with the SDK.
fn anchored(alg: &str) -> bool {
    use openssl::{
        stack::Stack,
        x509::{store::X509StoreBuilder, X509StoreContext, X509},
    };
    let (chain_pem, _) = sdk::credential(alg);
    let Ok(chain) = X509::stack_from_pem(&chain_pem) else { return false };
    let Ok(roots) = X509::stack_from_pem(sdk::test_anchors().as_bytes()) else { return false };
    if chain.is_empty() {
        return false;
    }
    let Ok(mut sb) = X509StoreBuilder::new() else { return false };
    for r in roots {
        let _ = sb.add_cert(r);
    }
    let store = sb.build();
    let mut inter = Stack::new().unwrap();
    for c in chain.iter().skip(1) {
        let _ = inter.push(c.clone());
    }
    let Ok(mut ctx) = X509StoreContext::new() else { return false };
    ctx.init(&store, &chain[0], &inter, |c| c.verify_cert()).unwrap_or(false)
}

// ---- the comparison of a reported manifest with the expectation ----------------------------------

/// Labels the SDK is documented to add on its own (never supplied by the generator under these names).
fn allowed_extra(label: &str, actions_supplied: bool) -> bool {
    (label.starts_with("c2pa.actions") && !actions_supplied)
        || label.starts_with("c2pa.thumbnail.")
        || label.starts_with("c2pa.embedded-data")
        || label.starts_with("c2pa.icon")
        || label.starts_with("c2pa.hash.")
        || label.starts_with("c2pa.ingredient")
        || label.starts_with("c2pa.certificate-status")
}

fn actions_match(supplied: &Value, reported: &Value) -> Result<(), String> {
    let empty = vec![];
    let sup = supplied["actions"].as_array().unwrap_or(&empty);
    let rep = reported["actions"].as_array().ok_or("reported actions assertion has no actions array")?;
    let mut j = 0usize;
    for (i, a) in sup.iter().enumerate() {
        let mut found = false;
        while j < rep.len() {
            let cand = &rep[j];
            j += 1;
            if cand["action"] == a["action"] && defgen::json_subset(a, cand) {
                found = true;
                break;
            }
        }
        if !found {
            return Err(format!("supplied action #{i} {} is not reported (in order) with equal members", a));
        }
    }
    Ok(())
}

fn compare(run: &Run, gd: &GenDef, m: &Manifest, mime: &str) -> CaseResult {
    let e = &gd.expect;
    // title
    if m.title() != e.title.as_deref() {
        return Err(Fail::new(
            "C03:title-differs",
            format!("supplied title {:?}, reported {:?}", e.title, m.title()),
        ));
    }
    // format: the one handed to sign (the definition carries the same or none).  A v2 claim has no
    // dc:format member (C2PA 2.x claim map), so nothing can be reported there; it must not be wrong though.
    let format_ok = match m.format() {
        Some(f) => f == mime,
        None => e.claim_version >= 2,
    };
    if !format_ok {
        return Err(Fail::new("C03:format-differs", format!("signed as {mime}, reported {:?}", m.format())));
    }
    if m.claim_version() != Some(e.claim_version) {
        return Err(Fail::new(
            "C03:claim-version-differs",
            format!("requested claim version {}, reported {:?}", e.claim_version, m.claim_version()),
        ));
    }
    // claim generator info
    let rep_cgi: Vec<Value> = m
        .claim_generator_info
        .as_ref()
        .map(|v| v.iter().map(|i| serde_json::to_value(i).unwrap_or(Value::Null)).collect())
        .unwrap_or_default();
    if !e.claim_generator_info.is_empty() {
        if rep_cgi.len() != e.claim_generator_info.len() {
            return Err(Fail::new(
                "C03:cgi-count-differs",
                format!("{} claim generator entries supplied, {} reported", e.claim_generator_info.len(), rep_cgi.len()),
            ));
        }
        for (i, (s, r)) in e.claim_generator_info.iter().zip(&rep_cgi).enumerate() {
            let so = s.as_object().unwrap();
            let ro = r.as_object().cloned().unwrap_or_default();
            for (k, v) in so {
                if k == "icon" {
                    if ro.get("icon").is_none() {
                        return Err(Fail::new("C03:cgi-icon-lost", format!("claim generator #{i}: icon not reported")));
                    }
                    continue; // identifier is rewritten to a JUMBF reference (documented: resources are embedded)
                }
                match ro.get(k) {
                    Some(w) if defgen::json_equiv(v, w) => {}
                    other => {
                        return Err(Fail::new(
                            "C03:cgi-member-differs",
                            format!("claim generator #{i} member {k:?}: supplied {v}, reported {other:?}"),
                        ))
                    }
                }
            }
            for k in ro.keys() {
                let sdk_added = i == 0 && k == "org.contentauth.c2pa_rs";
                if !so.contains_key(k) && !sdk_added {
                    return Err(Fail::new(
                        "C03:cgi-extra-member",
                        format!("claim generator #{i}: member {k:?} was not supplied"),
                    ));
                }
            }
        }
    } else if rep_cgi.len() != 1 {
        return Err(Fail::new(
            "C03:cgi-default-missing",
            format!("no claim generator supplied: expected the single SDK default entry, got {}", rep_cgi.len()),
        ));
    }

    // assertions: every supplied (label, payload) matched by a distinct reported one; extras only from the allow-list
    let reported = m.assertions();
    let mut used = vec![false; reported.len()];
    let actions_supplied = e.assertions.iter().any(|a| a.how == Match::Actions);
    let mut last_pos: Option<usize> = None;
    let mut order_kept = true;
    for (i, a) in e.assertions.iter().enumerate() {
        let mut hit = None;
        let mut near: Option<String> = None;
        for (j, r) in reported.iter().enumerate() {
            if used[j] {
                continue;
            }
            let label_ok = match a.how {
                Match::Actions => r.label().starts_with("c2pa.actions"),
                _ => r.label() == a.label,
            };
            if !label_ok {
                continue;
            }
            let Ok(val) = r.value() else { continue };
            let ok = match a.how {
                Match::Exact => defgen::json_equiv(&a.payload, val),
                Match::Members => defgen::json_subset(&a.payload, val),
                Match::Actions => match actions_match(&a.payload, val) {
                    Ok(()) => true,
                    Err(why) => {
                        near = Some(why);
                        false
                    }
                },
            };
            if ok {
                hit = Some(j);
                break;
            } else if near.is_none() {
                near = defgen::first_diff(&a.payload, val, "");
            }
        }
        match hit {
            Some(j) => {
                used[j] = true;
                if let Some(p) = last_pos {
                    if j < p {
                        order_kept = false;
                    }
                }
                last_pos = Some(j);
                let r = &reported[j];
                if a.how == Match::Exact {
                    let rep_json = matches!(r.kind(), c2pa::ManifestAssertionKind::Json);
                    if rep_json != a.json_kind {
                        run.count("note_kind_not_preserved");
                    }
                    if e.claim_version >= 2 && r.created() != a.created {
                        run.count("note_created_flag_not_preserved");
                    }
                }
            }
            None => {
                let labels: Vec<String> = reported.iter().map(|r| r.label_with_instance()).collect();
                let sig = if reported.iter().any(|r| r.label() == a.label || (a.how == Match::Actions && r.label().starts_with("c2pa.actions"))) {
                    match a.how {
                        Match::Actions => "C03:actions-payload-differs",
                        Match::Members => "C03:standard-assertion-payload-differs",
                        Match::Exact => "C03:assertion-payload-differs",
                    }
                } else {
                    "C03:assertion-missing"
                };
                return Err(Fail::new(
                    sig,
                    format!(
                        "supplied assertion #{i} {:?} is not reported with its payload ({}); reported labels {labels:?}",
                        a.label,
                        near.unwrap_or_else(|| "no assertion with that label".into())
                    ),
                ));
            }
        }
    }
    if !order_kept {
        run.count("note_assertion_order_changed");
    }
    let mut seen = std::collections::BTreeSet::new();
    for (j, r) in reported.iter().enumerate() {
        if !seen.insert(r.label_with_instance()) {
            // ManifestAssertion::label_with_instance() gives the same string for instance 0 and 1 (the
            // stored labels are `x` and `x__1`); labels-and-URIs are C34's subject, only counted here
            run.count("note_label_with_instance_collision");
        }
        if !used[j] && !allowed_extra(r.label(), actions_supplied) {
            return Err(Fail::new(
                "C03:unexpected-extra-assertion",
                format!("reported assertion {:?} was neither supplied nor is an SDK-generated kind", r.label_with_instance()),
            ));
        }
        if !used[j] {
            run.count(&format!("extra_{}", r.label()));
        }
    }

    // ingredients
    let ings = m.ingredients();
    let want = e.ingredients.len() + usize::from(e.auto_parent);
    if ings.len() != want {
        return Err(Fail::new(
            "C03:ingredient-count-differs",
            format!(
                "{} ingredients supplied{}, {} reported (titles {:?})",
                e.ingredients.len(),
                if e.auto_parent { " + 1 parent derived from the source (Edit/Update intent)" } else { "" },
                ings.len(),
                ings.iter().map(|i| i.title()).collect::<Vec<_>>()
            ),
        ));
    }
    // the derived parent is appended by sign(); supplied ones keep their order
    let mut rep_idx: Vec<usize> = (0..ings.len()).collect();
    if e.auto_parent {
        // remove one parentOf ingredient that was not supplied (the last parentOf)
        if let Some(p) = (0..ings.len()).rev().find(|i| ings[*i].relationship().as_str() == "parentOf") {
            rep_idx.retain(|i| *i != p);
        } else {
            return Err(Fail::new("C03:auto-parent-missing", "Edit/Update intent but no parentOf ingredient reported"));
        }
    }
    for (k, (x, ri)) in e.ingredients.iter().zip(rep_idx.iter()).enumerate() {
        let r = &ings[*ri];
        let title_ok = match (&x.title, r.title()) {
            (Some(a), Some(b)) => a == b,
            (None, None) => true,
            // claim v1 stores v2 ingredient assertions whose title is mandatory: absent is written as ""
            (None, Some("")) => e.claim_version == 1,
            _ => false,
        };
        if !title_ok {
            return Err(Fail::new(
                "C03:ingredient-title-differs",
                format!("ingredient #{k}: supplied title {:?}, reported {:?}", x.title, r.title()),
            ));
        }
        if r.relationship().as_str() != x.relationship {
            return Err(Fail::new(
                "C03:ingredient-relationship-differs",
                format!("ingredient #{k}: supplied {}, reported {}", x.relationship, r.relationship().as_str()),
            ));
        }
        if x.has_manifest != r.active_manifest().is_some() {
            return Err(Fail::new(
                "C03:ingredient-manifest-differs",
                format!("ingredient #{k}: has_manifest supplied {}, reported active_manifest {:?}", x.has_manifest, r.active_manifest()),
            ));
        }
        if x.format.as_deref() != r.format() {
            run.count("note_ingredient_format_differs");
        }
        if x.description.as_deref() != r.description() || x.informational_uri.as_deref() != r.informational_uri() {
            run.count("note_ingredient_description_or_uri_differs");
        }
    }

    // redactions
    let rep_red: Vec<String> = m.redactions().map(|r| r.to_vec()).unwrap_or_default();
    if rep_red != e.redactions {
        return Err(Fail::new(
            "C03:redactions-differ",
            format!("supplied redactions {:?}, reported {:?}", e.redactions, rep_red),
        ));
    }
    Ok(())
}

// ---- one round trip --------------------------------------------------------------------------------

struct Env {
    assets: Assets,
    anchored: BTreeMap<&'static str, bool>,
    selftest: u8,
}

fn judge(run: &Run, env: &Env, c: &Case) -> CaseResult {
    let ai = c.asset as usize % env.assets.list.len();
    let (alabel, mime, bytes) = &env.assets.list[ai];
    let mime: &str = mime;
    let alg = sdk::ALGS[c.alg as usize % sdk::ALGS.len()];
    let mut spec = c.spec.clone();
    if *alabel == "c2pa" {
        // a bare manifest store has no asset that could become a parent: Create intents only
        spec.intent %= 3;
    }
    // keep the triggers of already recognised defects rare, so that they do not mask the rest of the oracle
    // (deterministic in the case): generator icon + sha384/512; Update manifests that are not embedded or
    // embedded into containers with size fields
    if spec.resources == 2 && spec.hash_alg >= 2 && spec.seed % 8 != 0 {
        spec.resources = 1;
    }
    let mut embed_in = c.embed % 3;
    if spec.intent == 5 && !spec.claim_v1 {
        if spec.seed % 4 != 0 {
            embed_in = 0;
        }
        if embed_in == 0 && matches!(*alabel, "webp" | "wav" | "avi" | "tiff" | "mp3" | "flac") && spec.seed % 3 != 0 {
            spec.intent = 3;
        }
    }
    let gd = defgen::expand_with(&spec, &opts());
    // a bare manifest store is neither embedded in anything nor can it carry an XMP reference
    let embed = if *alabel == "c2pa" { 0 } else { embed_in };
    if std::env::var("VERIF_DUMP").is_ok() {
        let mut t = gd.json.to_string();
        t.truncate(6000);
        eprintln!("definition: {t}\nintent: {:?}\nstream ingredients: {:?}", gd.intent, gd.stream_ingredients.iter().map(|p| (&p.source, p.json.to_string())).collect::<Vec<_>>());
    }

    run.count(&format!("asset_{alabel}"));
    run.count(&format!("alg_{alg}"));
    run.count(&format!("embed_{}", ["embedded", "sidecar", "remote+embedded"][embed as usize]));
    run.count(if c.compress { "compress_on" } else { "compress_off" });
    run.count(if c.thumbs { "thumbnails_on" } else { "thumbnails_off" });
    for f in &gd.features {
        run.count(&format!("def_{f}"));
    }

    // source: Update manifests need a source that already carries a manifest
    let src: Vec<u8> = if gd.intent == IntentKind::Update {
        match env.assets.signed(ai) {
            Some(s) => s,
            None => {
                run.count("skipped_update_source_unsignable");
                return Ok(());
            }
        }
    } else {
        bytes.clone()
    };

    let mut settings = sdk::base_settings(true);
    sdk::merge(
        &mut settings,
        &json!({ "core": { "prefer_compress_manifests": c.compress }, "builder": { "thumbnail": { "enabled": c.thumbs } } }),
    );
    let definition = if spec.seed % 2 == 0 { gd.json_with_format(mime) } else { gd.json.clone() };

    let mut builder = match gd.builder(sdk::context_with(&settings), &definition) {
        Ok(b) => b,
        Err(e) => {
            run.count("generator_rejected");
            return Err(Fail::new(
                format!("C03:definition-rejected:{}", err_variant(&e)),
                format!("Builder rejected a well-formed definition: {e}"),
            ));
        }
    };
    match embed {
        1 => {
            builder.set_no_embed(true);
        }
        2 => {
            builder.set_remote_url(REMOTE_URL);
        }
        _ => {}
    }
    let signer = sdk::signer(alg);
    let mut source = Cursor::new(src.clone());
    let mut dest = Cursor::new(Vec::new());
    let signed = vh::catch(|| builder.sign(signer.as_ref(), mime, &mut source, &mut dest));
    let c2pa_data = match signed {
        Err(p) => return Err(Fail::new(format!("C03:sign-panic:{}", vh::core::panic_site(&p)), format!("sign panicked: {p}"))),
        Ok(Err(e)) => {
            // a remote reference needs a container that can carry XMP: documented error, not a finding
            if embed == 2 && matches!(e, c2pa::Error::XmpNotSupported) {
                run.count(&format!("remote_ref_unsupported_{alabel}"));
                return Ok(());
            }
            if format!("{e}").contains("Must have ParentOf ingredient") && gd.expect.ingredients.iter().any(|i| i.relationship == "parentOf") {
                return Err(Fail::new(
                    "C03:parent-ingredient-shadowed-by-same-id",
                    format!(
                        "Edit intent with a supplied parentOf ingredient {:?}: sign failed: {e}",
                        gd.expect.ingredients.iter().map(|i| (i.title.clone(), i.relationship.clone())).collect::<Vec<_>>()
                    ),
                ));
            }
            return Err(Fail::new(
                format!("C03:sign-failed:{}", err_variant(&e)),
                format!("sign({alabel}, {alg}, embed={embed}) failed: {e}"),
            ));
        }
        Ok(Ok(d)) => d,
    };
    let out = dest.into_inner();

    // read back
    let ctx = sdk::context_with(&settings);
    let read = vh::catch(|| {
        if embed == 1 && *alabel != "c2pa" {
            Reader::from_context(ctx).with_manifest_data_and_stream(&c2pa_data, mime, Cursor::new(out.clone()))
        } else {
            Reader::from_context(ctx).with_stream(mime, Cursor::new(out.clone()))
        }
    });
    let reader = match read {
        Err(p) => return Err(Fail::new(format!("C03:read-panic:{}", vh::core::panic_site(&p)), format!("read-back panicked: {p}"))),
        Ok(Err(e)) => {
            return Err(Fail::new(
                format!("C03:read-failed:{}", err_variant(&e)),
                format!("reading the signed {alabel} back failed: {e}"),
            ))
        }
        Ok(Ok(r)) => r,
    };

    // validation state
    let state = sdk::state_name(reader.validation_state());
    let want_state = if *env.anchored.get(alg).unwrap_or(&false) { "Trusted" } else { "Valid" };
    let got_state = if env.selftest == 2 { "Valid" } else { state };
    // A bare manifest store ("application/c2pa") has no associated asset: the SDK's own round-trip test
    // (builder.rs test over all formats) exempts it from validation; exactly the data-hash mismatch is tolerated.
    let bare_store = *alabel == "c2pa" && sdk::failure_codes(&reader).iter().all(|c| c == "assertion.dataHash.mismatch");
    if bare_store {
        run.count("bare_store_content_only");
    }
    if !bare_store && got_state != want_state && !(want_state == "Valid" && got_state == "Trusted") {
        let fc = sdk::failure_codes(&reader);
        let detail: Vec<String> = sdk::verdict(&reader)
            .codes
            .into_iter()
            .filter(|c| c.contains("F:") && !(*alabel == "c2pa" && c.contains("assertion.dataHash.mismatch")))
            .collect();
        // two recognised defect classes get their own stable signatures (everything else stays generic)
        let icon_and_alg = gd.features.iter().any(|f| f == "resource_icon")
            && matches!(gd.expect.hash_alg.as_deref(), Some("sha384") | Some("sha512"));
        let is_update_detached = gd.intent == IntentKind::Update && embed != 0;
        let by_icon = |d: &String| {
            icon_and_alg
                && ((d.contains("assertion.hashedURI.mismatch") && d.contains("c2pa.icon"))
                    || (d.contains("assertion.missing") && d.contains("c2pa.databoxes"))
                    || d.contains("general.error"))
        };
        let by_update = |d: &String| {
            is_update_detached
                && (d.contains("assertion.dataHash.mismatch") || d.contains("assertion.bmffHash.mismatch") || d.contains("assertion.boxesHash.mismatch"))
        };
        // embedded Update manifests: containers whose bytes outside the manifest box depend on its size
        let is_update_embedded = gd.intent == IntentKind::Update && embed == 0;
        let by_update_embedded = |d: &String| is_update_embedded && d.contains("assertion.dataHash.mismatch");
        if got_state == "Invalid" && !detail.is_empty() && detail.iter().any(|d| by_update_embedded(d)) && detail.iter().all(|d| by_icon(d) || by_update_embedded(d)) {
            return Err(Fail::new(
                "C03:update-manifest-embedded-invalid",
                format!("Update intent, manifest embedded into {alabel}: sign Ok, read-back Invalid; failures {detail:?}"),
            ));
        }
        if got_state == "Invalid" && !detail.is_empty() && detail.iter().all(|d| by_icon(d) || by_update(d)) {
            if detail.iter().any(|d| by_update(d)) {
                return Err(Fail::new(
                    "C03:update-manifest-not-embedded-invalid",
                    format!("Update intent with {}: sign Ok, read-back Invalid; failures {detail:?}", if embed == 1 { "set_no_embed(true)" } else { "set_remote_url" }),
                ));
            }
            return Err(Fail::new(
                "C03:icon-hashed-before-hash-alg",
                format!("claim generator icon + hash_alg {:?}: sign Ok, read-back Invalid; failures {detail:?}", gd.expect.hash_alg),
            ));
        }
        return Err(Fail::new(
            format!("C03:state-{}:{}", got_state.to_lowercase(), fc.first().cloned().unwrap_or_default()),
            format!("signed {alabel} with {alg}: state {got_state}, expected {want_state}; failures {detail:?}"),
        ));
    }
    let fails = sdk::failure_codes(&reader);
    if !fails.is_empty() && !bare_store {
        return Err(Fail::new(
            format!("C03:failure-code:{}", fails[0]),
            format!("state {state} but failure codes {fails:?}"),
        ));
    }

    let Some(m) = reader.active_manifest() else {
        return Err(Fail::new("C03:no-active-manifest", "read-back has no active manifest"));
    };

    // self-test: corrupt the expectation, the check must then fail
    let mut gd = gd;
    if env.selftest == 1 {
        if let Some(a) = gd.expect.assertions.iter_mut().find(|a| a.how == Match::Exact) {
            a.payload = json!({ "corrupted": a.payload.clone() });
        } else {
            gd.expect.title = Some("corrupted-by-selftest".into());
        }
    }
    compare(run, &gd, m, mime)?;

    // informational: requested hash algorithm shows up as the claim alg
    if let Some(h) = &gd.expect.hash_alg {
        let d: Value = serde_json::from_str(&reader.detailed_json()).unwrap_or(Value::Null);
        let label = reader.active_label().unwrap_or("");
        let alg_rep = d["manifests"][label]["claim"]["alg"].as_str().unwrap_or("").to_string();
        if alg_rep == *h {
            run.count("claim_alg_as_requested");
        } else {
            run.count(&format!("note_claim_alg_{alg_rep}_requested_{h}"));
        }
    }

    let nontrivial = gd.features.iter().any(|f| f == "custom_assertion" || f.starts_with("ingredient_"))
        || gd.boundary > 0
        || alg != "es256"
        || gd.expect.hash_alg.as_deref().map(|h| h != "sha256").unwrap_or(false);
    if nontrivial {
        run.nontrivial(c);
    }
    Ok(())
}

// ---- BMFF Merkle axis (core.merkle_tree_chunk_size_in_kb) on synthesised MP4-family assets --------------

#[derive(Clone, Debug, Serialize, Deserialize, PartialEq, Eq, Hash)]
struct MCase {
    /// index into BMFF_KINDS
    kind: u8,
    /// seed of `vh::assets::synth(kind, SplitMix64(aseed), 1500)`
    aseed: u64,
    merkle: bool,
    alg: u8,
    spec: DefSpec,
}

const BMFF_KINDS: [&str; 5] = ["mp4", "mov", "m4a", "heic", "avif"];

fn merkle_spec(s: &DefSpec) -> DefSpec {
    let mut s = s.clone();
    if s.intent == 5 {
        s.intent = 3;
    }
    s.resources = s.resources.min(1); // no generator icon: keeps the icon/hash_alg finding out of this axis
    if s.size_class == 3 {
        s.size_class = 2;
    }
    defgen::normalise(&mut s, &opts());
    s
}

fn judge_merkle(run: &Run, env: &Env, c: &MCase) -> CaseResult {
    let kind = BMFF_KINDS[c.kind as usize % BMFF_KINDS.len()];
    let asset = vh::assets::synth(kind, &mut SplitMix64::new(c.aseed), 1500);
    let mime = asset.format;
    let alg = sdk::ALGS[c.alg as usize % sdk::ALGS.len()];
    let gd = defgen::expand_with(&merkle_spec(&c.spec), &opts());
    let n_mdat = asset.desc.split("order ").nth(1).map(|o| o.split(|ch: char| ch == ',' || ch == ';' || ch == ' ').filter(|t| *t == "mdat").count()).unwrap_or(1);
    let size0 = asset.desc.contains("mdat-size0");
    run.count(&format!("merkle_{}_{kind}", if c.merkle { "on" } else { "off" }));
    run.count(&format!("bmff_mdat_boxes_{n_mdat}{}", if size0 { "_size0" } else { "" }));

    let settings_for = |merkle: bool| {
        let mut s = sdk::base_settings(true);
        if merkle {
            sdk::merge(&mut s, &json!({ "core": { "merkle_tree_chunk_size_in_kb": 1 } }));
        }
        s
    };
    // sign + read `reads` times; Err(sign error) or (readers, failure codes of the invalid reads)
    let round = |merkle: bool, reads: usize| -> Result<(Vec<Reader>, usize, Vec<String>), String> {
        let st = settings_for(merkle);
        let mut b = gd.builder(sdk::context_with(&st), &gd.json).map_err(|e| format!("definition: {e}"))?;
        let signer = sdk::signer(alg);
        let mut source = Cursor::new(asset.bytes.clone());
        let mut dest = Cursor::new(Vec::new());
        match vh::catch(|| b.sign(signer.as_ref(), mime, &mut source, &mut dest)) {
            Err(p) => return Err(format!("panic {p}")),
            Ok(Err(e)) => return Err(format!("{}: {e}", err_variant(&e))),
            Ok(Ok(_)) => {}
        }
        let out = dest.into_inner();
        let mut readers = vec![];
        let mut invalid = 0;
        let mut codes = vec![];
        for _ in 0..reads {
            match vh::catch(|| Reader::from_context(sdk::context_with(&st)).with_stream(mime, Cursor::new(out.clone()))) {
                Ok(Ok(r)) => {
                    if !sdk::is_valid_or_trusted(&r) || !sdk::failure_codes(&r).is_empty() {
                        invalid += 1;
                        codes.extend(sdk::failure_codes(&r));
                    }
                    readers.push(r);
                }
                Ok(Err(e)) => {
                    invalid += 1;
                    codes.push(format!("read-error:{}", err_variant(&e)));
                }
                Err(p) => {
                    invalid += 1;
                    codes.push(format!("read-panic:{}", vh::core::panic_site(&p)));
                }
            }
        }
        codes.sort();
        codes.dedup();
        Ok((readers, invalid, codes))
    };

    // The two-mdat read-back instability is a property of the *validator* (iteration order of a HashMap), so
    // such outputs are read 8 times; any Invalid read among them is reported under one signature.
    let reads = if c.merkle && n_mdat >= 2 { 8 } else { 2 };
    let res = round(c.merkle, reads);
    let control = |what: &str| -> Result<(), Fail> {
        // is the synthesised asset acceptable at all?  (same definition, Merkle off)
        match round(false, 1) {
            Err(e) => {
                run.count("synth_asset_rejected");
                let _ = (what, e);
                Ok(())
            }
            Ok((_, inv, _)) if inv > 0 => {
                run.count("synth_asset_invalid_without_merkle");
                Ok(())
            }
            Ok(_) => Err(Fail::new("", "")),
        }
    };
    let (readers, invalid, codes) = match res {
        Err(e) => {
            if !c.merkle {
                run.count("synth_asset_rejected");
                return Ok(());
            }
            // claim v1 writes c2pa.hash.bmff.v2, which has no Merkle support: documented capability error
            if gd.expect.claim_version == 1 && e.starts_with("VersionCompatibility") {
                run.count("merkle_unsupported_claim_v1");
                return Ok(());
            }
            return match control("sign") {
                Ok(()) => Ok(()),
                Err(_) => Err(Fail::new(
                    format!("C03:bmff-merkle-sign-failed:{}", e.split(':').next().unwrap_or("")),
                    format!("{kind} ({}): signs without Merkle hashing, with core.merkle_tree_chunk_size_in_kb=1 sign fails: {e}", asset.desc),
                )),
            };
        }
        Ok(x) => x,
    };
    if invalid > 0 {
        if !c.merkle {
            // the toolkit's synthesiser is meant to be sound; an invalid plain round trip is looked at as a violation
            return Err(Fail::new(
                format!("C03:bmff-synth-state-invalid:{}", codes.first().cloned().unwrap_or_default()),
                format!("{kind} synth seed {} ({}): signed without Merkle, {invalid}/{reads} reads not valid: {codes:?}", c.aseed, asset.desc),
            ));
        }
        if control("read").is_ok() {
            return Ok(());
        }
        let only_bmff = codes.iter().all(|c| c == "assertion.bmffHash.mismatch");
        // a size-0 ("to end of file") mdat fails on every read, whatever the number of mdat boxes; only a
        // mix of valid and invalid reads of the same bytes is the (repaired) pairing instability
        let sig = if only_bmff && size0 && invalid == reads {
            "C03:bmff-merkle-mdat-size0-signed-output-invalid".to_string()
        } else if only_bmff && n_mdat >= 2 && invalid == reads {
            // deterministic: e.g. one mdat large enough to need Merkle proof boxes next to a small one whose leaf
            // row is stored directly - split_bmff_merkle_map then reports "MerkleMap count incorrect"
            "C03:bmff-merkle-multi-mdat-signed-output-invalid".to_string()
        } else if only_bmff && n_mdat >= 2 && invalid < reads {
            "C03:bmff-merkle-two-mdat-readback-unstable".to_string()
        } else {
            format!("C03:bmff-merkle-signed-output-invalid:{}", codes.first().cloned().unwrap_or_default())
        };
        return Err(Fail::new(
            sig,
            format!(
                "{kind} synth seed {} ({}), core.merkle_tree_chunk_size_in_kb=1: sign Ok, {invalid} of {reads} read-backs not valid ({codes:?}); the same asset and definition without the Merkle setting is valid",
                c.aseed, asset.desc
            ),
        ));
    }
    let want_state = if *env.anchored.get(alg).unwrap_or(&false) { "Trusted" } else { "Valid" };
    for r in &readers {
        let st = sdk::state_name(r.validation_state());
        if st != want_state && !(want_state == "Valid" && st == "Trusted") {
            return Err(Fail::new(format!("C03:state-{}:", st.to_lowercase()), format!("{kind} synth: state {st}, expected {want_state}")));
        }
    }
    let Some(m) = readers.first().and_then(|r| r.active_manifest()) else {
        return Err(Fail::new("C03:no-active-manifest", "read-back has no active manifest"));
    };
    compare(run, &gd, m, mime)?;
    if c.merkle {
        run.nontrivial(c);
    }
    Ok(())
}

// ---- pairwise covering array over the configuration axes -----------------------------------------

/// Greedy pairwise covering array: rows over `sizes`, every pair of values of every two axes appears.
fn covering_array(sizes: &[usize], seed: u64) -> Vec<Vec<usize>> {
    let n = sizes.len();
    let mut uncovered: std::collections::BTreeSet<(usize, usize, usize, usize)> = Default::default();
    for a in 0..n {
        for b in a + 1..n {
            for x in 0..sizes[a] {
                for y in 0..sizes[b] {
                    uncovered.insert((a, x, b, y));
                }
            }
        }
    }
    let mut r = SplitMix64::new(seed);
    let mut rows = vec![];
    while let Some(&(a0, x0, b0, y0)) = uncovered.iter().next() {
        let mut best: Option<(usize, Vec<usize>)> = None;
        for _ in 0..40 {
            let mut row: Vec<usize> = sizes.iter().map(|s| r.usize(*s)).collect();
            row[a0] = x0;
            row[b0] = y0;
            let mut gain = 0;
            for a in 0..n {
                for b in a + 1..n {
                    if uncovered.contains(&(a, row[a], b, row[b])) {
                        gain += 1;
                    }
                }
            }
            if best.as_ref().map(|(g, _)| gain > *g).unwrap_or(true) {
                best = Some((gain, row));
            }
        }
        let row = best.unwrap().1;
        for a in 0..n {
            for b in a + 1..n {
                uncovered.remove(&(a, row[a], b, row[b]));
            }
        }
        rows.push(row);
    }
    rows
}

fn main() {
    vh::quiet_panics();
    let run = Run::from_args("C03", "exploration");
    run.set_rule("case = (writable fixture asset, generated definition [vh::defgen: title kinds, claim generator info, claim v1/v2, intent Create/Edit/Update/none, 0-6 assertions incl. custom labels with repeated labels, c2pa.actions, metadata, CreativeWork, payloads sized across the CBOR length boundaries 23/24, 255/256, 65535/65536, 0-3 ingredients: JSON-only / unsigned stream / signed fixture / harness-signed, redactions, resources], signing alg, hash alg, compressed manifests, embedded|sidecar|remote+embedded, thumbnails). A pairwise covering array over the configuration axes is enumerated with random content per row, then random cases with shrinking. Non-trivial = at least one custom assertion or ingredient, or a payload crossing a CBOR size boundary, or a non-default signing/hash algorithm.");
    run.assume("fixture credentials under sdk/tests/fixtures/certs and test_cert_root_bundle.pem as trust anchors; their chains are checked against the bundle with the openssl crate before Trusted is demanded");
    run.assume("documented SDK rewrites are not judged: format is the one passed to sign, instance_id, auto-added c2pa.created/c2pa.opened action and parent ingredient from the intent, thumbnails, hash bindings, claim_generator_info[0]['org.contentauth.c2pa_rs'], c2pa.actions label versioning, icon/thumbnail identifiers rewritten to JUMBF references");
    run.assume("remote+embedded on a container without XMP support returns Error::XmpNotSupported (counted, not judged)");

    let assets = Assets::load();
    let mut anch = BTreeMap::new();
    for a in sdk::ALGS {
        let ok = anchored(a);
        if !ok {
            run.note(format!("fixture chain for {a} is NOT anchored by the root bundle (openssl): only Valid is demanded"));
        }
        anch.insert(a, ok);
    }
    run.extra("anchored_algs", json!(anch.iter().filter(|(_, v)| **v).map(|(k, _)| *k).collect::<Vec<_>>()));
    let selftest: u8 = std::env::var("VERIF_SELFTEST").ok().and_then(|s| s.parse().ok()).unwrap_or(0);
    let env = Env { assets, anchored: anch, selftest };
    let n_assets = env.assets.list.len();
    let threads = if run.quick() { 8 } else { 12 };

    // ---- (a) pairwise covering array over the configuration axes, random content -------------------
    // axes: asset, alg, hash alg (absent/256/384/512), compress, claim v1, embed mode, thumbnails, intent
    let sizes = [n_assets, 7, 4, 2, 2, 3, 2, 6];
    let rows = covering_array(&sizes, 0xC03);
    run.extra("covering_array_rows", json!(rows.len()));
    let mut sm = SplitMix64::new(run.seed ^ 0xC03C03);
    let cases: Vec<Case> = rows
        .iter()
        .map(|row| {
            let mut spec = DefSpec {
                seed: sm.next_u64(),
                title: sm.usize(7) as u8,
                cgi: sm.usize(6) as u8,
                claim_v1: row[4] == 1,
                intent: row[7] as u8,
                n_assertions: sm.usize(5) as u8,
                n_ingredients: sm.usize(3) as u8,
                size_class: sm.usize(3) as u8,
                hash_alg: row[2] as u8,
                thumb: sm.usize(2) as u8,
                resources: sm.usize(3) as u8,
                vendor: false,
                redact: sm.chance(1, 5),
            };
            defgen::normalise(&mut spec, &opts());
            Case { asset: row[0] as u8, alg: row[1] as u8, compress: row[3] == 1, embed: row[5] as u8, thumbs: row[6] == 1, spec }
        })
        .collect();
    run.drive_enum_par("pairwise_config", cases, threads, |c| judge(&run, &env, c));

    // ---- (b) thorough: full alg × hash × format grid with a fixed definition -------------------------
    if !run.quick() {
        let mut grid = vec![];
        for asset in 0..n_assets {
            for alg in 0..7u8 {
                for hash in 1..4u8 {
                    let spec = DefSpec { seed: 7, n_assertions: 2, size_class: 1, hash_alg: hash, ..DefSpec::default() };
                    grid.push(Case { asset: asset as u8, alg, compress: false, embed: 0, thumbs: false, spec });
                }
            }
        }
        run.drive_enum_par("full_grid", grid, threads, |c| judge(&run, &env, c));
    }

    // ---- (b2) BMFF Merkle axis: kinds × Merkle on/off × synthesised layouts, random definitions ------------
    {
        let per = run.scale(12u64, 120u64);
        let mut sm = SplitMix64::new(run.seed ^ 0x3E441E);
        let mut mcases = vec![];
        for kind in 0..BMFF_KINDS.len() as u8 {
            for i in 0..per {
                // fixed layout seeds first (23: single mdat with size 0; 2, 11: two mdat boxes), then seeded ones
                let aseed = match i {
                    0 => 23,
                    1 => 2,
                    2 => 11,
                    _ => sm.below(100_000),
                };
                for merkle in [true, false] {
                    let mut spec = DefSpec {
                        seed: sm.next_u64(),
                        title: sm.usize(7) as u8,
                        cgi: sm.usize(6) as u8,
                        claim_v1: sm.chance(1, 6),
                        intent: sm.usize(5) as u8,
                        n_assertions: sm.usize(4) as u8,
                        n_ingredients: sm.usize(2) as u8,
                        size_class: sm.usize(3) as u8,
                        hash_alg: sm.usize(4) as u8,
                        ..DefSpec::default()
                    };
                    defgen::normalise(&mut spec, &opts());
                    mcases.push(MCase { kind, aseed, merkle, alg: sm.usize(7) as u8, spec });
                }
            }
        }
        run.drive_enum_par("bmff_merkle", mcases, threads, |c| judge_merkle(&run, &env, c));
    }

    // ---- (c) random cases with shrinking ----------------------------------------------------------------
    let n_random = run.scale(300u32, 8000u32);
    // small assets are preferred: index drawn from a weighted table
    let sizes_b: Vec<usize> = env.assets.list.iter().map(|a| a.2.len()).collect();
    let mut table: Vec<u8> = vec![];
    for (i, s) in sizes_b.iter().enumerate() {
        let w = if *s < 200_000 { 4 } else if *s < 1_200_000 { 2 } else { 1 };
        for _ in 0..w {
            table.push(i as u8);
        }
    }
    let tl = table.len();
    let strat = (0..tl, 0u8..7, any::<bool>(), 0u8..3, any::<bool>(), defgen::spec_strategy(opts())).prop_map(
        move |(ti, alg, compress, embed, thumbs, spec)| Case { asset: table[ti], alg, compress, embed, thumbs, spec },
    );
    run.drive_par("random", n_random, threads, strat, |c| judge(&run, &env, c));

    let rejected = run.hist_get("generator_rejected");
    let evals = run.evals().max(1);
    run.extra("generator_rejected_fraction", json!(rejected as f64 / evals as f64));
    if rejected * 20 > evals {
        run.inconclusive(format!("{rejected} of {evals} generated definitions were rejected (> 5 %): the generator is wrong"));
    }
    run.finish();
}
