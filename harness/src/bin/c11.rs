//! C11 — the reader's verdict does not depend on a wrong format hint.
//!
//! Differential oracle (this is an agreement statement): for every stream whose leading bytes identify a supported
//! container according to the harness's own magic-byte table (`vh::walk::sniff`, from the bytes only; `%PDF` added
//! locally because the SDK is built with its pdf feature and documents that signature), the outcome of
//! `Reader::with_stream(hint, stream)` — `Ok(report without validation time, verdict tuple)`, `Err(error kind)` or a
//! panic site — must be the same for EVERY hint string as under the canonical hint (the mime type the asset was
//! produced as). Streams that the table does not identify, and the two kinds the SDK does not claim to sniff
//! (SVG, bare `.c2pa` store), are the control group: the hint may decide there; agreement is recorded, not judged.

use std::collections::{BTreeMap, BTreeSet};

use c2pa::{BuilderIntent, DigitalSourceType};
use serde::{Deserialize, Serialize};
use serde_json::{json, Value};
use vh::{sdk, CaseResult, Fail, Run};

#[derive(Clone, Debug, Serialize, Deserialize, PartialEq, Eq, Hash)]
struct StreamSpec {
    label: String,
    /// "synth:<kind>:<seed>" | "fixture:<file>" | "random:<seed>:<len>" | "bytes:<hex>"
    source: String,
    /// canonical hint (the format the asset is / was signed as)
    format: String,
    /// "signed" | "signed-box" (box hash) | "remote" (remote reference, no embedded store) | "asis" (not signed by
    /// the harness: unsigned source or pre-signed fixture) | "store" (the bare manifest store of the signed asset)
    mode: String,
    /// "none" | "media" | "manifest:<percent>"
    tamper: String,
}

#[derive(Clone, Debug, Serialize, Deserialize, PartialEq, Eq, Hash)]
struct Case {
    stream: StreamSpec,
    hint: String,
}

#[derive(Clone, Debug, PartialEq)]
enum Outcome {
    Ok { report: Value, verdict: sdk::Verdict },
    Err(String),
    Panic(String),
}

impl Outcome {
    fn class(&self) -> String {
        match self {
            Outcome::Ok { verdict, .. } => format!("ok-{}", verdict.state),
            Outcome::Err(k) => format!("err-{k}"),
            Outcome::Panic(_) => "panic".into(),
        }
    }
}

struct Prepared {
    spec: StreamSpec,
    bytes: Vec<u8>,
    /// kind identified by the harness table from the bytes
    sniffed: Option<&'static str>,
    /// judged (bytes identify a container the SDK claims to sniff) or control
    judged: bool,
    canonical: Outcome,
}

fn err_kind(e: &c2pa::Error) -> String {
    let d = format!("{e:?}");
    d.chars().take_while(|c| c.is_ascii_alphanumeric() || *c == '_').collect()
}

fn read_outcome(hint: &str, bytes: &[u8]) -> Outcome {
    match vh::catch(|| sdk::read(hint, bytes)) {
        Err(pm) => Outcome::Panic(vh::core::panic_site(&pm)),
        Ok(Err(e)) => Outcome::Err(err_kind(&e)),
        Ok(Ok(r)) => Outcome::Ok { report: sdk::report_same_bytes(&r), verdict: sdk::verdict(&r) },
    }
}

/// Harness table: `walk::sniff` plus `%PDF`.
fn sniff(b: &[u8]) -> Option<&'static str> {
    if b.len() >= 5 && &b[..5] == b"%PDF-" {
        return Some("pdf");
    }
    vh::walk::sniff(b)
}

fn family(k: &str) -> Option<&'static str> {
    let t = k.trim().to_ascii_lowercase();
    if t == "pdf" || t == "application/pdf" {
        return Some("pdf");
    }
    vh::walk::family(&t)
}

fn source_bytes(spec: &StreamSpec) -> Result<Vec<u8>, String> {
    let mut it = spec.source.splitn(3, ':');
    match (it.next(), it.next(), it.next()) {
        (Some("synth"), Some(kind), Some(seed)) => {
            let seed: u64 = seed.parse().map_err(|_| "bad seed")?;
            let mut rng = vh::rng::SplitMix64::new(seed);
            // seed 0 = the simplest fixed instance
            if seed == 0 {
                Ok(vh::assets::synth_default(kind).bytes)
            } else {
                Ok(vh::assets::synth(kind, &mut rng, 1200).bytes)
            }
        }
        (Some("fixture"), Some(name), None) => Ok(sdk::fixture(name)),
        (Some("random"), Some(seed), Some(len)) => {
            let mut rng = vh::rng::SplitMix64::new(seed.parse().map_err(|_| "bad seed")?);
            Ok(rng.bytes(len.parse().map_err(|_| "bad len")?))
        }
        (Some("bytes"), Some(h), None) => hex::decode(h).map_err(|e| e.to_string()),
        _ => Err(format!("bad source {}", spec.source)),
    }
}

fn label_hash(s: &str) -> u64 {
    vh::digest(&s)
}

fn build_stream(spec: &StreamSpec) -> Result<Vec<u8>, String> {
    let src = source_bytes(spec)?;
    let h = label_hash(&spec.source);
    let alg = ["ed25519", "es256", "ps256"][(h % 3) as usize];
    let signer = sdk::signer(alg);
    let def = sdk::simple_definition(&format!("c11 {}", spec.label));
    let intent = Some(BuilderIntent::Create(DigitalSourceType::Empty));
    let mut bytes = match spec.mode.as_str() {
        "asis" => src,
        "signed" | "store" => {
            let s = sdk::sign_with(sdk::context(), &def, intent, signer.as_ref(), &spec.format, &src).map_err(|e| format!("sign: {e}"))?;
            if spec.mode == "store" {
                sdk::store_of(&spec.format, &s).map_err(|e| format!("store_of: {e}"))?
            } else {
                s
            }
        }
        "signed-box" => {
            let mut st = sdk::base_settings(true);
            sdk::merge(&mut st, &json!({"core": {"prefer_compress_manifests": true}}));
            sdk::sign_with(sdk::context_with(&st), &def, intent, signer.as_ref(), &spec.format, &src).map_err(|e| format!("sign(box): {e}"))?
        }
        "remote" => {
            let mut b = c2pa::Builder::from_context(sdk::context()).with_definition(def.to_string()).map_err(|e| e.to_string())?;
            b.set_intent(BuilderIntent::Create(DigitalSourceType::Empty));
            b.set_remote_url("https://example.com/manifests/c11.c2pa");
            b.set_no_embed(true);
            let mut s = std::io::Cursor::new(src);
            let mut d = std::io::Cursor::new(Vec::new());
            b.sign(signer.as_ref(), &spec.format, &mut s, &mut d).map_err(|e| format!("sign(remote): {e}"))?;
            d.into_inner()
        }
        other => return Err(format!("bad mode {other}")),
    };
    // tampering (positions are a pure function of the signed bytes)
    match spec.tamper.as_str() {
        "none" => {}
        t => {
            let spans = vh::walk::manifest_spans(&spec.format, &bytes).unwrap_or_default();
            if t == "media" {
                // midpoint of the largest stretch outside the manifest container(s), keeping the first 64 bytes
                let mut cuts: Vec<(usize, usize)> = spans.iter().map(|(s, l)| (*s, s + l)).collect();
                cuts.sort();
                let mut best = (0usize, 0usize);
                let mut at = 64.min(bytes.len());
                for (s, e) in cuts.iter().chain(std::iter::once(&(bytes.len(), bytes.len()))) {
                    if *s > at && s - at > best.1 - best.0 {
                        best = (at, *s);
                    }
                    at = at.max(*e);
                }
                if best.1 <= best.0 {
                    return Err("no media stretch to tamper".into());
                }
                let pos = best.0 + (best.1 - best.0) / 2;
                bytes[pos] ^= 0x55;
            } else if let Some(pc) = t.strip_prefix("manifest:") {
                let pc: usize = pc.parse().map_err(|_| "bad percent")?;
                let (s, l) = spans.iter().copied().max_by_key(|(_, l)| *l).ok_or("no manifest span to tamper")?;
                let pos = s + (l.saturating_sub(1)) * pc / 100;
                bytes[pos] ^= 0x01;
            } else {
                return Err(format!("bad tamper {t}"));
            }
        }
    }
    Ok(bytes)
}

fn prepare(spec: &StreamSpec) -> Result<Prepared, String> {
    let bytes = build_stream(spec)?;
    let sniffed = sniff(&bytes);
    // SVG and bare stores: the SDK does not claim to identify them from the bytes (DESIGN §11) — control.
    let judged = matches!(sniffed, Some(k) if k != "svg" && k != "c2pa");
    // a bare store is canonically read as application/c2pa (spec.format is what its asset was signed as)
    let canonical = read_outcome(canonical_hint(spec), &bytes);
    Ok(Prepared { spec: spec.clone(), bytes, sniffed, judged, canonical })
}

fn canonical_hint(spec: &StreamSpec) -> &str {
    if spec.mode == "store" {
        "application/c2pa"
    } else {
        &spec.format
    }
}

/// What the first bytes look like (class counter only).
fn lead_class(b: &[u8]) -> &'static str {
    if b.len() >= 3 && &b[..3] == b"ID3" {
        return if sniff(b) == Some("flac") { "lead:id3-then-flac" } else { "lead:id3-then-mpeg" };
    }
    if b.len() >= 2 && b[0] == 0xFF && b[1] & 0xE0 == 0xE0 && !(b.len() >= 3 && b[1] == 0xD8) {
        return "lead:mpeg-frame-sync-no-id3";
    }
    if b.len() >= 4 && &b[..4] == b"fLaC" {
        return "lead:bare-flac";
    }
    if b.len() >= 4 && (&b[..4] == b"MM\0*" || &b[..4] == b"II*\0") {
        return if b[0] == b'M' { "lead:tiff-big-endian" } else { "lead:tiff-little-endian" };
    }
    "lead:other"
}

fn hint_relation(hint: &str, sniffed: Option<&str>) -> &'static str {
    match (family(hint), sniffed.and_then(family)) {
        (Some(h), Some(s)) if h == s => "same-family",
        (Some(_), _) => "other-family",
        (None, _) => "unknown-hint",
    }
}

fn selftest() -> String {
    std::env::var("VERIF_SELFTEST").unwrap_or_default()
}

fn judge(run: &Run, p: &Prepared, hint: &str) -> CaseResult {
    let rel = hint_relation(hint, p.sniffed);
    let kind = p.sniffed.unwrap_or("none");
    let mut got = read_outcome(hint, &p.bytes);
    // sensitivity self-tests: emulate "the hint wins over the bytes" without touching the SDK
    match selftest().as_str() {
        // a reader that trusts a known, different-family hint would fail to find the store
        "hintwins" if rel == "other-family" && p.judged => got = Outcome::Err("JumbfNotFound".into()),
        // a reader that loses one validation code under unknown hints
        "dropcode" if rel == "unknown-hint" && p.judged => {
            if let Outcome::Ok { verdict, .. } = &mut got {
                verdict.codes.pop();
            }
        }
        _ => {}
    }
    if !p.judged {
        let agree = got == p.canonical;
        run.count(&format!("control:{}:{}:{}", kind, rel, if agree { "agrees" } else { "hint-matters" }));
        return Ok(());
    }
    run.count(&format!("judged:{}:{}:{}", family(kind).unwrap_or("?"), rel, p.canonical.class()));
    if rel != "same-family" {
        run.nontrivial(&(p.spec.label.clone(), hint.to_string()));
    }
    if got == p.canonical {
        return Ok(());
    }
    let fam = family(kind).unwrap_or("?");
    let (class, detail) = match (&p.canonical, &got) {
        (_, Outcome::Panic(s)) => ("panic-under-hint".to_string(), format!("panic at {s}")),
        (Outcome::Panic(s), _) => ("panic-under-canonical".to_string(), format!("canonical hint panics at {s}")),
        (Outcome::Ok { .. }, Outcome::Err(k)) => ("ok-becomes-err".to_string(), format!("canonical Ok, hinted Err({k})")),
        (Outcome::Err(k), Outcome::Ok { verdict, .. }) => ("err-becomes-ok".to_string(), format!("canonical Err({k}), hinted Ok/{}", verdict.state)),
        (Outcome::Err(a), Outcome::Err(b)) => ("err-kind-differs".to_string(), format!("canonical Err({a}), hinted Err({b})")),
        (Outcome::Ok { report: r0, verdict: v0 }, Outcome::Ok { report: r1, verdict: v1 }) => {
            if v0 != v1 {
                let a: BTreeSet<_> = v0.codes.iter().collect();
                let b: BTreeSet<_> = v1.codes.iter().collect();
                (
                    "verdict-differs".to_string(),
                    format!("state {} vs {}; only canonical: {:?}; only hinted: {:?}", v0.state, v1.state, a.difference(&b).take(4).collect::<Vec<_>>(), b.difference(&a).take(4).collect::<Vec<_>>()),
                )
            } else {
                ("report-differs".to_string(), first_diff(r0, r1, ""))
            }
        }
    };
    Err(Fail::new(
        format!("C11:{class}:{fam}:{rel}"),
        format!("{} ({} bytes, bytes identify {kind}, canonical hint {:?}) read with hint {hint:?}: {detail}", p.spec.label, p.bytes.len(), canonical_hint(&p.spec)),
    ))
}

fn first_diff(a: &Value, b: &Value, path: &str) -> String {
    match (a, b) {
        (Value::Object(x), Value::Object(y)) => {
            for (k, v) in x {
                match y.get(k) {
                    None => return format!("{path}/{k} missing under hint"),
                    Some(w) if w != v => return first_diff(v, w, &format!("{path}/{k}")),
                    _ => {}
                }
            }
            for k in y.keys() {
                if !x.contains_key(k) {
                    return format!("{path}/{k} only under hint");
                }
            }
            format!("{path}: key order differs")
        }
        (Value::Array(x), Value::Array(y)) => {
            if x.len() != y.len() {
                return format!("{path}: array length {} vs {}", x.len(), y.len());
            }
            for (i, (v, w)) in x.iter().zip(y).enumerate() {
                if v != w {
                    return first_diff(v, w, &format!("{path}/{i}"));
                }
            }
            format!("{path}: equal?")
        }
        _ => {
            let s = |v: &Value| {
                let mut t = v.to_string();
                t.truncate(120);
                t
            };
            format!("{path}: {} vs {}", s(a), s(b))
        }
    }
}

fn hints() -> Vec<String> {
    let mut base: BTreeSet<String> = BTreeSet::new();
    base.extend(c2pa::Reader::supported_mime_types());
    base.extend(c2pa::jumbf_io::get_supported_types());
    base.extend(c2pa::Builder::supported_mime_types());
    let mut all: BTreeSet<String> = base.clone();
    for h in &base {
        all.insert(h.to_ascii_uppercase());
    }
    for x in ["", "application/octet-stream", "xyz", "XYZ", " image/jpeg ", "Image/Jpeg", "image/jpeg; charset=binary", ".jpg", "jpg\n", "video/mpeg", "bmp", "image/vnd.adobe.photoshop", "text/plain", "c2pa", "application/c2pa"] {
        all.insert(x.to_string());
    }
    all.into_iter().collect()
}

fn specs(run: &Run) -> Vec<StreamSpec> {
    let mut v = vec![];
    let mk = |label: String, source: String, format: &str, mode: &str, tamper: &str| StreamSpec { label, source, format: format.into(), mode: mode.into(), tamper: tamper.into() };
    let n_assets = run.scale(4u64, 30u64);
    let box_kinds = ["jpeg", "png", "gif", "jxl"];
    for kind in vh::assets::KINDS {
        let (mime, _) = vh::assets::kind_format(kind);
        for i in 0..n_assets {
            let seed = (run.seed ^ label_hash(kind)).wrapping_add(2 * i) | 1; // odd -> random instance
            let seed = if i == 1 { 0 } else { seed }; // second asset: the simplest fixed instance
            let src = format!("synth:{kind}:{seed}");
            let mode = if box_kinds.contains(kind) && i % 2 == 1 { "signed-box" } else { "signed" };
            let l = |t: &str| format!("{kind}#{i}:{t}");
            v.push(mk(l(mode), src.clone(), mime, mode, "none"));
            v.push(mk(l("media-tampered"), src.clone(), mime, mode, "media"));
            let pcs: &[u32] = if run.quick() { &[60, 97] } else { &[5, 30, 60, 97] };
            for pc in pcs {
                v.push(mk(l(&format!("manifest-tampered-{pc}")), src.clone(), mime, mode, &format!("manifest:{pc}")));
            }
            v.push(mk(l("unsigned"), src.clone(), mime, "asis", "none"));
            if i < run.scale(1, 4) {
                if c2pa::verif_hooks::has_remote_ref(mime) {
                    v.push(mk(l("remote-ref"), src.clone(), mime, "remote", "none"));
                }
                // bare store of the signed asset: unsniffable control
                v.push(mk(l("bare-store"), src.clone(), mime, "store", "none"));
            }
        }
    }
    // repository fixtures: signed by the harness, pre-signed (as is), unsigned (as is)
    let to_sign: &[(&str, &str)] = &[
        ("no_manifest.jpg", "image/jpeg"),
        ("libpng-test.png", "image/png"),
        ("test.webp", "image/webp"),
        ("test.avi", "video/avi"),
        ("sample1.wav", "audio/wav"),
        ("test.tiff", "image/tiff"),
        ("sample1.mp3", "audio/mpeg"),
        ("sample1.flac", "audio/flac"),
        ("sample1.svg", "image/svg+xml"),
        ("sample1.avif", "image/avif"),
        ("sample1.heic", "image/heic"),
        ("sample1.m4a", "audio/mp4"),
        ("video1_no_manifest.mp4", "video/mp4"),
        ("c.mov", "video/quicktime"),
        ("sample1.gif", "image/gif"),
        ("sample1.jxl", "image/jxl"),
    ];
    for (fx, mime) in to_sign {
        let big = std::fs::metadata(format!("{}/{}", sdk::FIXTURES, fx)).map(|m| m.len()).unwrap_or(0) > 150_000;
        if big && run.quick() {
            continue;
        }
        v.push(mk(format!("{fx}:signed"), format!("fixture:{fx}"), mime, "signed", "none"));
        if !run.quick() {
            v.push(mk(format!("{fx}:media-tampered"), format!("fixture:{fx}"), mime, "signed", "media"));
        }
    }
    let asis: &[(&str, &str)] = &[
        ("C.jpg", "image/jpeg"),
        ("CA.jpg", "image/jpeg"),
        ("XCA.jpg", "image/jpeg"),
        ("cloud.jpg", "image/jpeg"),
        ("libpng-test_with_url.png", "image/png"),
        ("legacy.mp4", "video/mp4"),
        ("boxhash.jpg", "image/jpeg"),
        ("TUSCANY.TIF", "image/tiff"),
        ("basic-signed.pdf", "application/pdf"),
        ("express-signed.pdf", "application/pdf"),
        ("basic.pdf", "application/pdf"),
        ("cloud_manifest.c2pa", "application/c2pa"),
        ("unsupported_type.txt", "text/plain"),
    ];
    for (fx, mime) in asis {
        let big = std::fs::metadata(format!("{}/{}", sdk::FIXTURES, fx)).map(|m| m.len()).unwrap_or(0) > 150_000;
        if big && run.quick() {
            continue;
        }
        v.push(mk(format!("{fx}:asis"), format!("fixture:{fx}"), mime, "asis", "none"));
    }
    // unrecognisable streams
    for (i, len) in [0usize, 1, 2, 16, 300, 5000].iter().enumerate() {
        v.push(mk(format!("random#{i}"), format!("random:{}:{len}", run.seed ^ (i as u64) << 8), "application/octet-stream", "asis", "none"));
    }
    // headers only: magic bytes followed by nothing / noise (bytes identify a container; every hint must fail alike)
    let magics: &[(&str, &[u8], &str)] = &[
        ("jpeg-soi-only", &[0xFF, 0xD8, 0xFF], "image/jpeg"),
        ("png-sig-only", &[137, 80, 78, 71, 13, 10, 26, 10], "image/png"),
        ("gif-sig-only", b"GIF89a", "image/gif"),
        ("riff-wave-only", b"RIFF\x04\0\0\0WAVE", "audio/wav"),
        ("tiff-hdr-only", b"II*\0\x08\0\0\0", "image/tiff"),
        ("flac-sig-only", b"fLaC", "audio/flac"),
        ("id3-only", b"ID3\x04\0\0\0\0\0\0", "audio/mpeg"),
        ("mp3-sync-only", &[0xFF, 0xFB, 0x90, 0x00], "audio/mpeg"),
        ("ftyp-only", b"\0\0\0\x10ftypisom\0\0\0\0", "video/mp4"),
        ("jxl-sig-only", &[0, 0, 0, 0x0C, b'J', b'X', b'L', b' ', 0x0D, 0x0A, 0x87, 0x0A], "image/jxl"),
    ];
    for (name, m, mime) in magics {
        v.push(mk(format!("magic:{name}"), format!("bytes:{}", hex::encode(m)), mime, "asis", "none"));
        let mut noisy = m.to_vec();
        noisy.extend(vh::rng::SplitMix64::new(run.seed ^ label_hash(name)).bytes(200));
        v.push(mk(format!("magic+noise:{name}"), format!("bytes:{}", hex::encode(noisy)), mime, "asis", "none"));
    }
    v
}

fn main() {
    vh::quiet_panics();
    let run = Run::from_args("C11", "exploration");
    run.set_rule("case = (stream, hint). Streams: for each of the 16 synthesised container kinds, N assets (quick 4, thorough 30; one of them the simplest instance) signed by the harness (data / BMFF hash; box hash on every other JPEG/PNG/GIF/JXL), each also as media-tampered, manifest-tampered (byte flips at 60%/97% — thorough also 5%/30% — of the manifest container located by the independent walker) and unsigned variants, plus remote-reference (no embedded store) variants; repository fixtures signed by the harness; pre-signed / unsigned repository fixtures read as they are (JPEG, PNG, MP4, TIFF, PDF); header-only streams (a bare magic number, with and without noise). Hints: EVERY string of Reader::supported_mime_types() u jumbf_io::get_supported_types() u Builder::supported_mime_types(), the upper-case form of each, and \"\", application/octet-stream, xyz, padded / parameterised / dotted variants, unsupported types. Controls (recorded, not judged): signed SVG, bare .c2pa stores, random bytes. Non-trivial = a judged stream read under a hint that names a different handler family than the bytes, or no known family at all.");
    run.assume("the canonical outcome is the SDK's own answer under the matching hint: C11 is an agreement property, the correctness of that answer belongs to C01-C06");
    run.assume("'the leading bytes identify a supported container' is decided by vh::walk::sniff on the bytes (JPEG FF D8 FF, PNG signature, GIF87a/89a, RIFF+WAVE/WEBP/AVI form, TIFF/BigTIFF headers, JXL container signature, fLaC, ID3 (+fLaC behind the tag), MPEG frame sync FF Ex, ISO-BMFF ftyp at offset 4) plus %PDF-; this table is nowhere more permissive than the SDK's container_from_stream, and both SVG and the bare manifest store, which the harness table recognises but the SDK does not claim to sniff, are treated as controls");
    run.assume("reports are compared as Reader::json() + detailed_json() minus the validation time; errors by variant name");

    let hs = hints();
    run.extra("hints", json!(hs));
    run.extra("hint_count", json!(hs.len()));

    // replay: rebuild exactly the stream of the case (signing is re-done, so URNs differ, the comparison is within the run)
    if let Some((_, case)) = &run.replay {
        if let Ok(c) = serde_json::from_value::<Case>(case.clone()) {
            match vh::catch(|| prepare(&c.stream)) {
                Ok(Ok(p)) => run.drive_enum("hints", vec![c.clone()], |c| judge(&run, &p, &c.hint)),
                Ok(Err(e)) => run.inconclusive(format!("replay stream cannot be prepared: {e}")),
                Err(pm) => run.inconclusive(format!("replay stream cannot be prepared (panic {pm})")),
            }
        }
        run.finish();
    }

    let all = specs(&run);
    let prepared: Vec<Option<Prepared>> = {
        let next = std::sync::atomic::AtomicUsize::new(0);
        let out: std::sync::Mutex<Vec<(usize, Result<Prepared, String>)>> = std::sync::Mutex::new(vec![]);
        std::thread::scope(|s| {
            for _ in 0..16 {
                s.spawn(|| loop {
                    let i = next.fetch_add(1, std::sync::atomic::Ordering::SeqCst);
                    if i >= all.len() {
                        break;
                    }
                    let r = match vh::catch(|| prepare(&all[i])) {
                        Ok(r) => r,
                        Err(pm) => Err(format!("panic {pm}")),
                    };
                    out.lock().unwrap().push((i, r));
                });
            }
        });
        let mut o = out.into_inner().unwrap();
        o.sort_by_key(|x| x.0);
        o.into_iter()
            .map(|(i, r)| match r {
                Ok(p) => Some(p),
                Err(e) => {
                    // tampered variants of kinds without a manifest span (remote) etc. are not producible: fine
                    run.count("generator_rejected");
                    run.note(format!("generator_rejected {}: {e}", all[i].label));
                    None
                }
            })
            .collect()
    };
    let prepared: Vec<Prepared> = prepared.into_iter().flatten().collect();
    let rejected = all.len() - prepared.len();
    run.extra("streams_prepared", json!(prepared.len()));
    run.extra("streams_rejected", json!(rejected));
    if rejected * 10 > all.len() {
        run.inconclusive(format!("{rejected} of {} streams could not be prepared", all.len()));
    }
    // distribution of canonical outcomes per family (non-vacuity: Ok/Valid, Ok/Invalid and Err must all occur)
    let mut canon: BTreeMap<String, u64> = BTreeMap::new();
    for p in &prepared {
        let k = format!("{}:{}:{}", if p.judged { "judged" } else { "control" }, p.sniffed.and_then(family).unwrap_or("none"), p.canonical.class());
        *canon.entry(k).or_insert(0) += 1;
        run.count(lead_class(&p.bytes));
        // a signed, untampered, judged stream must read Ok under its canonical hint, otherwise the generator is broken
        if p.judged && p.spec.tamper == "none" && p.spec.mode.starts_with("signed") && !matches!(p.canonical, Outcome::Ok { .. }) {
            run.inconclusive(format!("{}: freshly signed asset does not read under its own format: {}", p.spec.label, p.canonical.class()));
        }
    }
    run.extra("canonical_outcomes", json!(canon));

    let index: BTreeMap<String, usize> = prepared.iter().enumerate().map(|(i, p)| (p.spec.label.clone(), i)).collect();
    let mut cases: Vec<Case> = vec![];
    // hints outermost and small streams first so that the first failure per signature is a small one
    let mut order: Vec<usize> = (0..prepared.len()).collect();
    order.sort_by_key(|i| prepared[*i].bytes.len());
    for i in order {
        for h in &hs {
            cases.push(Case { stream: prepared[i].spec.clone(), hint: h.clone() });
        }
    }
    run.extra("cases", json!(cases.len()));
    run.drive_enum_par("hints", cases, 16, |c| match index.get(&c.stream.label) {
        Some(i) if prepared[*i].spec == c.stream => judge(&run, &prepared[*i], &c.hint),
        // committed regression case of another seed: rebuild its stream
        _ => match vh::catch(|| prepare(&c.stream)) {
            Ok(Ok(p)) => judge(&run, &p, &c.hint),
            _ => {
                run.count("regression_stream_not_preparable");
                Ok(())
            }
        },
    });
    // exhaustive over the hint set for every generated stream (the stream set itself is a sample)
    run.set_exhaustive(false);
    run.finish();
}
