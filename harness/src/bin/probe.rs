//! Scratch probe (not a check).
use vh::sdk::*;
fn main() {
    let a: Vec<String> = std::env::args().collect();
    let fmt = a.get(1).map(|s| s.as_str()).unwrap_or("image/jpeg");
    let fx = a.get(2).map(|s| s.as_str()).unwrap_or("no_manifest.jpg");
    let boxhash = a.get(3).map(|s| s == "box").unwrap_or(false);
    let src = fixture(fx);
    let mut st = base_settings(true);
    if boxhash { st["core"] = serde_json::json!({"prefer_compress_manifests": true}); }
    let out = sign_with(context_with(&st), &simple_definition("probe"), Some(c2pa::BuilderIntent::Create(c2pa::DigitalSourceType::Empty)), signer("ed25519").as_ref(), fmt, &src).unwrap();
    let r = read(fmt, &out).unwrap();
    let d: serde_json::Value = serde_json::from_str(&r.detailed_json()).unwrap();
    let label = r.active_label().unwrap();
    let m = &d["manifests"][label];
    println!("keys: {:?}", m.as_object().map(|o| o.keys().cloned().collect::<Vec<_>>()));
    println!("{}", serde_json::to_string_pretty(&m["assertion_store"]).unwrap().chars().take(3000).collect::<String>());
}
