//! Scratch probe: two-mdat merkle layout.
use vh::sdk::*;
fn main() {
    let mut st = base_settings(true);
    merge(&mut st, &serde_json::json!({"core": {"merkle_tree_chunk_size_in_kb": 1}}));
    let a: Vec<String> = std::env::args().collect();
    let kind = a.get(1).cloned().unwrap_or("mov".into());
    let seed: u64 = a.get(2).and_then(|s| s.parse().ok()).unwrap_or(11656);
    let mut rng = vh::rng::SplitMix64::new(seed);
    let s = vh::assets::synth(&kind, &mut rng, 1500);
    println!("{}", s.desc);
    let fmt = s.format;
    let o = sign_with(context_with(&st), &simple_definition("p"), Some(c2pa::BuilderIntent::Create(c2pa::DigitalSourceType::Empty)), signer("ed25519").as_ref(), fmt, &s.bytes).unwrap();
    for _ in 0..4 { let r = read(fmt, &o).unwrap(); println!("{:?} {:?}", r.validation_state(), failure_codes(&r)); }
    let r = read(fmt, &o).unwrap();
    let d: serde_json::Value = serde_json::from_str(&r.detailed_json()).unwrap();
    let m = &d["manifests"][r.active_label().unwrap()]["assertion_store"];
    for (k, v) in m.as_object().unwrap() { if k.contains("bmff") { 
        for mm in v["merkle"].as_array().unwrap_or(&vec![]) { println!("mm localId={} count={} fixed={:?} hashes={}", mm["localId"], mm["count"], mm["fixedBlockSize"], mm["hashes"].as_array().map(|a| a.len()).unwrap_or(0)); }
    } }
    // top-level boxes of output
    let mut p = 0usize; let b = &o;
    while p + 8 <= b.len() { let sz = u32::from_be_bytes([b[p],b[p+1],b[p+2],b[p+3]]) as usize; let ty = String::from_utf8_lossy(&b[p+4..p+8]).to_string(); let size = if sz==1 { u64::from_be_bytes(b[p+8..p+16].try_into().unwrap()) as usize } else if sz==0 { b.len()-p } else { sz }; println!("box {ty} @{p} size {size} (hdr {})", if sz==1 {16} else {8}); if size < 8 {break;} p += size; }
}
