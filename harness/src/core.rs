//! Run context shared by every check: tiers, seeds, evidence, known findings, replay files.
//!
//! Contract (MANIFEST.json): exit 0 = property held on everything explored (known findings are
//! printed as `KNOWN-FINDING:` lines), exit 1 + `VIOLATION property=<id> replay=<path>` otherwise,
//! exit 2 = inconclusive (harness trouble, watchdog), never reported as a violation.

use std::{
    collections::{BTreeMap, BTreeSet, HashSet},
    hash::{Hash, Hasher},
    path::PathBuf,
    sync::Mutex,
    time::Instant,
};

use proptest::{
    strategy::{Strategy, ValueTree},
    test_runner::{Config, RngAlgorithm, TestRng, TestRunner},
};
use serde::{de::DeserializeOwned, Serialize};
use serde_json::{json, Value};

/// Root of the verification tree (evidence, replays, known findings). Overridable for isolated
/// sensitivity runs against a scratch copy of the repository.
pub fn verif_root() -> PathBuf {
    PathBuf::from(std::env::var("VERIF_ROOT_DIR").unwrap_or_else(|_| "/verif".to_string()))
}

#[derive(Clone, Copy, PartialEq, Eq, Debug)]
pub enum Tier {
    Quick,
    Thorough,
}

#[derive(Clone, Debug)]
pub struct Fail {
    /// Stable signature of the failure class (used to match known findings), e.g. `C13:excl-overrun-not-last`.
    pub signature: String,
    /// Human-readable description of what failed on this case.
    pub what: String,
}

impl Fail {
    pub fn new(signature: impl Into<String>, what: impl Into<String>) -> Self {
        Fail {
            signature: signature.into(),
            what: what.into(),
        }
    }
}

pub type CaseResult = Result<(), Fail>;

#[derive(Clone, Debug, serde::Deserialize)]
pub struct KnownFinding {
    pub property: String,
    #[serde(default)]
    pub signature: String,
    #[serde(default)]
    pub what: String,
    /// "open" (suppresses + prints KNOWN-FINDING) or "fixed" (suppresses nothing).
    #[serde(default)]
    pub status: String,
    #[serde(default)]
    pub line: String,
}

#[derive(Default)]
struct Inner {
    evals: u64,
    nontrivial: HashSet<u64>,
    samples: Vec<Value>,
    samples_per_check: BTreeMap<String, usize>,
    hist: BTreeMap<String, u64>,
    observed_known: BTreeMap<String, u64>,
    violations: Vec<(String, String, PathBuf)>,
    excluded_known: u64,
    notes: Vec<String>,
    extra: serde_json::Map<String, Value>,
    inconclusive: Vec<String>,
}

pub struct Run {
    pub id: String,
    pub tier: Tier,
    pub seed: u64,
    pub level: String,
    pub replay: Option<(String, Value)>,
    pub rule: Mutex<String>,
    pub assumptions: Mutex<Vec<String>>,
    pub exhaustive: Mutex<Option<bool>>,
    known: Vec<KnownFinding>,
    start: Instant,
    frozen: std::sync::atomic::AtomicBool,
    inner: Mutex<Inner>,
}

fn hash64<T: Hash>(t: &T) -> u64 {
    // FNV-style deterministic hasher (std's DefaultHasher is deterministic for a fixed std, but keep it explicit).
    struct Fnv(u64);
    impl Hasher for Fnv {
        fn finish(&self) -> u64 {
            self.0
        }
        fn write(&mut self, bytes: &[u8]) {
            for b in bytes {
                self.0 ^= *b as u64;
                self.0 = self.0.wrapping_mul(0x100000001b3);
            }
        }
    }
    let mut h = Fnv(0xcbf29ce484222325);
    t.hash(&mut h);
    h.finish()
}

pub fn digest<T: Hash>(t: &T) -> u64 {
    hash64(t)
}

static FIRST_UNKNOWN: std::sync::OnceLock<std::time::Instant> = std::sync::OnceLock::new();

impl Run {
    /// Parse `argv`: `<bin> quick|thorough [--replay <file>]`; seed from `VERIF_SEED`.
    pub fn from_args(id: &str, level: &str) -> Run {
        let args: Vec<String> = std::env::args().collect();
        let mut tier = match std::env::var("VERIF_TIER").ok().as_deref() {
            Some("thorough") => Tier::Thorough,
            _ => Tier::Quick,
        };
        let mut replay = None;
        let mut i = 1;
        while i < args.len() {
            match args[i].as_str() {
                "quick" => tier = Tier::Quick,
                "thorough" => tier = Tier::Thorough,
                "--replay" => {
                    i += 1;
                    let p = args.get(i).expect("--replay needs a path");
                    let txt = std::fs::read_to_string(p).expect("cannot read replay file");
                    let v: Value = serde_json::from_str(&txt).expect("replay file is not JSON");
                    let check = v["check"].as_str().unwrap_or("").to_string();
                    replay = Some((check, v["case"].clone()));
                }
                other => {
                    eprintln!("unknown argument {other}");
                    std::process::exit(2);
                }
            }
            i += 1;
        }
        let seed_raw: u64 = std::env::var("VERIF_SEED")
            .ok()
            .and_then(|s| s.trim().parse::<i128>().ok())
            .map(|v| v as u64)
            .unwrap_or(0);
        // 0 is remapped to a fixed constant so that "no seed" is still one deterministic run.
        let seed = if seed_raw == 0 { 0x5EED_C2FA_2026 } else { seed_raw };
        let known = load_known(id);
        Run {
            id: id.to_string(),
            tier,
            seed,
            level: level.to_string(),
            replay,
            rule: Mutex::new(String::new()),
            assumptions: Mutex::new(vec![]),
            exhaustive: Mutex::new(None),
            known,
            start: Instant::now(),
            frozen: std::sync::atomic::AtomicBool::new(false),
            inner: Mutex::new(Inner::default()),
        }
    }

    pub fn seed_as_reported(&self) -> i64 {
        (self.seed & 0x7fff_ffff_ffff_ffff) as i64
    }

    pub fn quick(&self) -> bool {
        self.tier == Tier::Quick
    }

    /// Pick a bound by tier.
    pub fn scale<T>(&self, quick: T, thorough: T) -> T {
        if self.quick() {
            quick
        } else {
            thorough
        }
    }

    pub fn set_rule(&self, r: &str) {
        *self.rule.lock().unwrap() = r.to_string();
    }

    pub fn assume(&self, a: &str) {
        self.assumptions.lock().unwrap().push(a.to_string());
    }

    pub fn set_exhaustive(&self, e: bool) {
        *self.exhaustive.lock().unwrap() = Some(e);
    }

    fn is_frozen(&self) -> bool {
        self.frozen.load(std::sync::atomic::Ordering::SeqCst)
    }

    /// Count one predicate evaluation.
    pub fn eval(&self) {
        if !self.is_frozen() {
            self.inner.lock().unwrap().evals += 1;
        }
    }

    pub fn evals(&self) -> u64 {
        self.inner.lock().unwrap().evals
    }

    /// Record a non-trivial case by digest (distinct count is the size of the set).
    pub fn nontrivial<T: Hash>(&self, t: &T) {
        if !self.is_frozen() {
            self.inner.lock().unwrap().nontrivial.insert(hash64(t));
        }
    }

    /// Histogram counter (class distribution; shows up under coverage.classes).
    pub fn count(&self, class: &str) {
        if !self.is_frozen() {
            *self.inner.lock().unwrap().hist.entry(class.to_string()).or_insert(0) += 1;
        }
    }

    pub fn count_n(&self, class: &str, n: u64) {
        if !self.is_frozen() {
            *self.inner.lock().unwrap().hist.entry(class.to_string()).or_insert(0) += n;
        }
    }

    pub fn hist_get(&self, class: &str) -> u64 {
        *self.inner.lock().unwrap().hist.get(class).unwrap_or(&0)
    }

    /// Keep a concrete case as a sample (at most 4 per check name, 24 overall).
    pub fn sample(&self, check: &str, v: Value) {
        if self.is_frozen() {
            return;
        }
        let mut g = self.inner.lock().unwrap();
        let total = g.samples.len();
        let n = g.samples_per_check.entry(check.to_string()).or_insert(0);
        if *n >= 4 || total >= 24 {
            return;
        }
        *n += 1;
        let mut s = serde_json::to_string(&v).unwrap_or_default();
        if s.len() > 1500 {
            s.truncate(1500);
            g.samples.push(json!({"check": check, "case_truncated": s}));
        } else {
            g.samples.push(json!({"check": check, "case": v}));
        }
    }

    pub fn note(&self, n: impl Into<String>) {
        self.inner.lock().unwrap().notes.push(n.into());
    }

    pub fn extra(&self, key: &str, v: Value) {
        self.inner.lock().unwrap().extra.insert(key.to_string(), v);
    }

    pub fn inconclusive(&self, why: impl Into<String>) {
        self.inner.lock().unwrap().inconclusive.push(why.into());
    }

    pub fn excluded_known(&self, n: u64) {
        self.inner.lock().unwrap().excluded_known += n;
    }

    /// Is this signature listed as an *open* known finding?
    pub fn is_known(&self, signature: &str) -> bool {
        self.known
            .iter()
            .any(|k| k.status == "open" && k.property == self.id && k.signature == signature)
    }

    /// Remember when the first violation (failure with a signature that is not a known finding) was seen.
    fn mark_unknown(&self) {
        let _ = FIRST_UNKNOWN.get_or_init(std::time::Instant::now);
    }

    /// True once a violation is on record and `VERIF_AFTER_FAIL_SECS` (default 300) have passed since: the verdict
    /// is already "violation", so the remaining generated / enumerated cases are skipped (counted) instead of making
    /// a check whose every case is slow under a defect (hangs up to a watchdog) run for hours.
    pub fn past_fail_deadline(&self) -> bool {
        let lim: u64 = std::env::var("VERIF_AFTER_FAIL_SECS").ok().and_then(|v| v.parse().ok()).unwrap_or(300);
        match FIRST_UNKNOWN.get() {
            Some(t) if t.elapsed().as_secs() > lim => {
                self.count("skipped_after_violation");
                true
            }
            _ => false,
        }
    }

    /// Handle a failed case: known finding -> remembered (search continues), else violation.
    /// Returns true when the failure is a new violation.
    pub fn fail(&self, check: &str, f: &Fail, case: Value) -> bool {
        if self.is_known(&f.signature) {
            *self
                .inner
                .lock()
                .unwrap()
                .observed_known
                .entry(f.signature.clone())
                .or_insert(0) += 1;
            return false;
        }
        self.mark_unknown();
        let dir = verif_root().join("replays").join(&self.id);
        let _ = std::fs::create_dir_all(&dir);
        let body = json!({
            "property": self.id,
            "check": check,
            "signature": f.signature,
            "what": f.what,
            "seed": self.seed_as_reported(),
            "case": case,
        });
        let txt = serde_json::to_string_pretty(&body).unwrap();
        let name = format!("last-{:016x}.json", hash64(&txt));
        let path = dir.join(name);
        let _ = std::fs::write(&path, txt);
        let mut g = self.inner.lock().unwrap();
        // one report per signature
        if !g.violations.iter().any(|v| v.0 == f.signature) {
            g.violations.push((f.signature.clone(), f.what.clone(), path));
        }
        true
    }

    pub fn has_violation(&self) -> bool {
        !self.inner.lock().unwrap().violations.is_empty()
    }

    fn replay_case<V: DeserializeOwned>(&self, check: &str) -> Option<Option<V>> {
        match &self.replay {
            None => None,
            Some((c, v)) if c == check => Some(serde_json::from_value(v.clone()).ok()),
            Some(_) => Some(None),
        }
    }

    /// Committed regression cases for this check: /verif/replays/<id>/reg-*.json
    fn regression_cases<V: DeserializeOwned>(&self, check: &str) -> Vec<V> {
        let dir = verif_root().join("replays").join(&self.id);
        let mut out = vec![];
        let mut names: Vec<PathBuf> = match std::fs::read_dir(&dir) {
            Ok(rd) => rd.filter_map(|e| e.ok()).map(|e| e.path()).collect(),
            Err(_) => vec![],
        };
        names.sort();
        for p in names {
            let n = p.file_name().and_then(|s| s.to_str()).unwrap_or("");
            if !n.starts_with("reg-") || !n.ends_with(".json") {
                continue;
            }
            if let Ok(txt) = std::fs::read_to_string(&p) {
                if let Ok(v) = serde_json::from_str::<Value>(&txt) {
                    if v["check"].as_str() == Some(check) {
                        if let Ok(c) = serde_json::from_value(v["case"].clone()) {
                            out.push(c);
                        }
                    }
                }
            }
        }
        out
    }

    /// Enumerate explicit cases (exhaustive / stratified domains). Cases are visited in the order
    /// given (put small ones first: the first failure per signature is then already minimal).
    /// `test` may call `eval/nontrivial/count`; every item counts one evaluation here.
    pub fn drive_enum<V, I>(&self, check: &str, cases: I, test: impl Fn(&V) -> CaseResult)
    where
        V: Serialize + DeserializeOwned,
        I: IntoIterator<Item = V>,
    {
        if let Some(rc) = self.replay_case::<V>(check) {
            if let Some(v) = rc {
                self.eval();
                if let Err(f) = test(&v) {
                    self.fail(check, &f, serde_json::to_value(&v).unwrap_or(Value::Null));
                }
            }
            return;
        }
        for v in self.regression_cases::<V>(check) {
            self.eval();
            self.count("regression_replays");
            if let Err(f) = test(&v) {
                self.fail(check, &f, serde_json::to_value(&v).unwrap_or(Value::Null));
            }
        }
        let mut seen_sigs: BTreeSet<String> = BTreeSet::new();
        for v in cases {
            if self.past_fail_deadline() {
                continue;
            }
            self.eval();
            let r = test(&v);
            let jv = || serde_json::to_value(&v).unwrap_or(Value::Null);
            match r {
                Ok(()) => self.sample(check, jv()),
                Err(f) => {
                    if seen_sigs.insert(f.signature.clone()) || self.is_known(&f.signature) {
                        self.fail(check, &f, jv());
                    }
                }
            }
        }
    }

    /// Parallel version of `drive_enum` (order of evaluation is not fixed, verdict set is).
    pub fn drive_enum_par<V>(&self, check: &str, cases: Vec<V>, threads: usize, test: impl Fn(&V) -> CaseResult + Sync)
    where
        V: Serialize + DeserializeOwned + Sync + Send,
    {
        if self.replay.is_some() {
            return self.drive_enum(check, cases, test);
        }
        for v in self.regression_cases::<V>(check) {
            self.eval();
            self.count("regression_replays");
            if let Err(f) = test(&v) {
                self.fail(check, &f, serde_json::to_value(&v).unwrap_or(Value::Null));
            }
        }
        let n = cases.len();
        let next = std::sync::atomic::AtomicUsize::new(0);
        let fails: Mutex<Vec<(usize, Fail)>> = Mutex::new(vec![]);
        std::thread::scope(|s| {
            for _ in 0..threads.max(1) {
                s.spawn(|| loop {
                    let i = next.fetch_add(1, std::sync::atomic::Ordering::SeqCst);
                    if i >= n {
                        break;
                    }
                    if self.past_fail_deadline() {
                        continue;
                    }
                    self.eval();
                    match test(&cases[i]) {
                        Ok(()) => {
                            if i < 4 {
                                self.sample(check, serde_json::to_value(&cases[i]).unwrap_or(Value::Null));
                            }
                        }
                        Err(f) => {
                            if !self.is_known(&f.signature) {
                                self.mark_unknown();
                            }
                            fails.lock().unwrap().push((i, f))
                        }
                    }
                });
            }
        });
        let mut fails = fails.into_inner().unwrap();
        fails.sort_by_key(|x| x.0);
        let mut seen: BTreeSet<String> = BTreeSet::new();
        for (i, f) in fails {
            if seen.insert(f.signature.clone()) || self.is_known(&f.signature) {
                self.fail(check, &f, serde_json::to_value(&cases[i]).unwrap_or(Value::Null));
            }
        }
    }

    /// Property-based search with proptest: `cases` generated values, shrinking on failure.
    /// Known findings do not stop the search. The stream of cases is a pure function of
    /// (VERIF_SEED, check name, stream index).
    pub fn drive<S>(&self, check: &str, cases: u32, strat: S, test: impl Fn(&S::Value) -> CaseResult)
    where
        S: Strategy,
        S::Value: Serialize + DeserializeOwned + Clone + std::fmt::Debug,
    {
        self.drive_stream(check, cases, 0, &strat, &test)
    }

    fn drive_stream<S>(&self, check: &str, cases: u32, stream: u64, strat: &S, test: &impl Fn(&S::Value) -> CaseResult)
    where
        S: Strategy,
        S::Value: Serialize + DeserializeOwned + Clone + std::fmt::Debug,
    {
        if stream == 0 {
            if let Some(rc) = self.replay_case::<S::Value>(check) {
                if let Some(v) = rc {
                    self.eval();
                    if let Err(f) = test(&v) {
                        self.fail(check, &f, serde_json::to_value(&v).unwrap_or(Value::Null));
                    }
                }
                return;
            }
            for v in self.regression_cases::<S::Value>(check) {
                self.eval();
                self.count("regression_replays");
                if let Err(f) = test(&v) {
                    self.fail(check, &f, serde_json::to_value(&v).unwrap_or(Value::Null));
                }
            }
        } else if self.replay.is_some() {
            return;
        }
        let mut seed_bytes = [0u8; 32];
        let s0 = self.seed ^ hash64(&check) ^ stream.wrapping_mul(0x9E3779B97F4A7C15);
        let mut sm = crate::rng::SplitMix64::new(s0);
        for ch in seed_bytes.chunks_mut(8) {
            ch.copy_from_slice(&sm.next_u64().to_le_bytes());
        }
        let cfg = Config {
            cases,
            failure_persistence: None,
            max_shrink_iters: 2000,
            ..Config::default()
        };
        let rng = TestRng::from_seed(RngAlgorithm::ChaCha, &seed_bytes);
        let mut runner = TestRunner::new_with_rng(cfg, rng);
        // Hand-rolled loop (instead of runner.run) so that known findings do not end the campaign
        // and so that counting stops exactly when shrinking starts.
        for _ in 0..cases {
            if self.past_fail_deadline() {
                continue;
            }
            let mut tree = match strat.new_tree(&mut runner) {
                Ok(t) => t,
                Err(e) => {
                    self.inconclusive(format!("{check}: generator rejected: {e}"));
                    return;
                }
            };
            let v = tree.current();
            self.eval();
            match test(&v) {
                Ok(()) => {
                    self.sample(check, serde_json::to_value(&v).unwrap_or(Value::Null));
                }
                Err(f) if self.is_known(&f.signature) => {
                    self.fail(check, &f, Value::Null);
                }
                Err(f0) => {
                    self.mark_unknown();
                    // shrink: freeze counters, walk the value tree while the case still fails
                    // with an *unknown* signature.
                    let was = self.frozen.swap(true, std::sync::atomic::Ordering::SeqCst);
                    let mut best = (v, f0);
                    let mut iters = 0;
                    // shrinking only serves minimality (the failure is already established): bound it by steps and by
                    // wall-clock, so that a failure whose every re-run is slow (a hang up to its watchdog) still ends
                    let shrink_t0 = std::time::Instant::now();
                    let shrink_secs: u64 = std::env::var("VERIF_SHRINK_SECS").ok().and_then(|v| v.parse().ok()).unwrap_or(240);
                    if tree.simplify() {
                        loop {
                            iters += 1;
                            if iters > 400 || shrink_t0.elapsed().as_secs() > shrink_secs {
                                break;
                            }
                            let cur = tree.current();
                            let failed = match test(&cur) {
                                Err(f) if !self.is_known(&f.signature) => Some(f),
                                _ => None,
                            };
                            if let Some(f) = failed {
                                best = (cur, f);
                                if !tree.simplify() {
                                    break;
                                }
                            } else if !tree.complicate() {
                                break;
                            }
                        }
                    }
                    self.frozen.store(was, std::sync::atomic::Ordering::SeqCst);
                    self.fail(check, &best.1, serde_json::to_value(&best.0).unwrap_or(Value::Null));
                    return; // first unknown failure ends this stream
                }
            }
        }
    }

    /// `drive` split over `threads` independent streams (cases are divided between them).
    pub fn drive_par<S>(&self, check: &str, cases: u32, threads: usize, strat: S, test: impl Fn(&S::Value) -> CaseResult + Sync)
    where
        S: Strategy + Sync,
        S::Value: Serialize + DeserializeOwned + Clone + std::fmt::Debug,
    {
        if self.replay.is_some() || threads <= 1 {
            return self.drive_stream(check, cases, 0, &strat, &test);
        }
        // regression cases once (stream 0 with zero generated cases)
        self.drive_stream(check, 0, 0, &strat, &test);
        let per = (cases as usize + threads - 1) / threads;
        std::thread::scope(|s| {
            for t in 0..threads {
                let strat = &strat;
                let test = &test;
                s.spawn(move || {
                    self.drive_stream(check, per as u32, 1 + t as u64, strat, test);
                });
            }
        });
    }

    /// Write evidence, print verdict lines, exit.
    pub fn finish(self) -> ! {
        let wall = self.start.elapsed().as_secs_f64();
        let g = std::mem::take(&mut *self.inner.lock().unwrap());
        let mut coverage = serde_json::Map::new();
        coverage.insert("evaluations".into(), json!(g.evals));
        coverage.insert("distinct_nontrivial".into(), json!(g.nontrivial.len()));
        coverage.insert("rule".into(), json!(self.rule.lock().unwrap().clone()));
        let mut samples = g.samples.clone();
        if samples.is_empty() {
            samples.push(json!({"note": "no passing case sampled"}));
        }
        coverage.insert("samples".into(), Value::Array(samples));
        coverage.insert("classes".into(), json!(g.hist));
        coverage.insert("excluded_known".into(), json!(g.excluded_known));
        if let Some(e) = *self.exhaustive.lock().unwrap() {
            coverage.insert("exhaustive".into(), json!(e));
        }
        if !g.notes.is_empty() {
            coverage.insert("notes".into(), json!(g.notes));
        }
        if !g.inconclusive.is_empty() {
            coverage.insert("inconclusive".into(), json!(g.inconclusive));
        }
        let known_obs: Vec<Value> = g
            .observed_known
            .iter()
            .map(|(s, n)| json!({"signature": s, "observed": n}))
            .collect();
        coverage.insert("known_findings_observed".into(), Value::Array(known_obs));
        for (k, v) in g.extra {
            coverage.insert(k, v);
        }
        let ev = json!({
            "property_id": self.id,
            "tier": if self.tier == Tier::Quick { "quick" } else { "thorough" },
            "seed": self.seed_as_reported(),
            "level": self.level,
            "coverage": Value::Object(coverage),
            "assumptions": self.assumptions.lock().unwrap().clone(),
            "wall_s": wall,
            "violations": g.violations.len(),
        });
        if self.replay.is_none() {
            let dir = verif_root().join("evidence");
            let _ = std::fs::create_dir_all(&dir);
            let p = dir.join(format!("{}.json", self.id));
            if let Err(e) = std::fs::write(&p, serde_json::to_string_pretty(&ev).unwrap()) {
                eprintln!("cannot write evidence {p:?}: {e}");
            }
        }
        for (sig, n) in &g.observed_known {
            let what = self
                .known
                .iter()
                .find(|k| &k.signature == sig)
                .map(|k| k.what.clone())
                .unwrap_or_default();
            println!("KNOWN-FINDING: property={} {} — {} (observed {}x)", self.id, sig, what, n);
        }
        println!(
            "{} {}: evaluations={} distinct_nontrivial={} violations={} wall={:.1}s",
            self.id,
            if self.tier == Tier::Quick { "quick" } else { "thorough" },
            g.evals,
            g.nontrivial.len(),
            g.violations.len(),
            wall
        );
        if !g.violations.is_empty() {
            for (sig, what, path) in &g.violations {
                println!("  violation {sig}: {what}");
                println!("VIOLATION property={} replay={}", self.id, path.display());
            }
            std::process::exit(1);
        }
        if !g.inconclusive.is_empty() {
            for w in &g.inconclusive {
                println!("INCONCLUSIVE: {w}");
            }
            std::process::exit(2);
        }
        std::process::exit(0);
    }
}

fn load_known(id: &str) -> Vec<KnownFinding> {
    let p = verif_root().join("known_findings.json");
    let Ok(txt) = std::fs::read_to_string(&p) else {
        return vec![];
    };
    let v: Value = match serde_json::from_str(&txt) {
        Ok(v) => v,
        Err(e) => {
            eprintln!("known_findings.json unreadable: {e}");
            std::process::exit(2);
        }
    };
    let mut out = vec![];
    if let Some(a) = v["findings"].as_array() {
        for f in a {
            if let Ok(k) = serde_json::from_value::<KnownFinding>(f.clone()) {
                if k.property == id {
                    out.push(k);
                }
            }
        }
    }
    out
}

thread_local! {
    static LAST_PANIC: std::cell::RefCell<String> = const { std::cell::RefCell::new(String::new()) };
    static CATCH_DEPTH: std::cell::Cell<u32> = const { std::cell::Cell::new(0) };
}

/// Install a panic hook that keeps panics quiet and remembers `file:line: message` per thread
/// (panics are caught and judged by the checks).
pub fn quiet_panics() {
    std::panic::set_hook(Box::new(|info| {
        let loc = info
            .location()
            .map(|l| format!("{}:{}", l.file(), l.line()))
            .unwrap_or_else(|| "?".into());
        let msg = if let Some(s) = info.payload().downcast_ref::<&str>() {
            s.to_string()
        } else if let Some(s) = info.payload().downcast_ref::<String>() {
            s.clone()
        } else {
            "panic".to_string()
        };
        // a panic outside vh::catch on a harness thread is a harness bug: show it
        let named_sdk_thread = std::thread::current().name().map(|n| n.starts_with("c2pa-")).unwrap_or(false);
        if CATCH_DEPTH.with(|d| d.get()) == 0 && !named_sdk_thread {
            eprintln!("uncaught panic at {loc}: {msg}");
        }
        LAST_PANIC.with(|p| *p.borrow_mut() = format!("{loc}: {msg}"));
    }));
}

/// Run `f`, turning a panic into `Err("file:line: message")`.
pub fn catch<T>(f: impl FnOnce() -> T) -> Result<T, String> {
    CATCH_DEPTH.with(|d| d.set(d.get() + 1));
    let r = std::panic::catch_unwind(std::panic::AssertUnwindSafe(f));
    CATCH_DEPTH.with(|d| d.set(d.get() - 1));
    match r {
        Ok(v) => Ok(v),
        Err(_) => Err(LAST_PANIC.with(|p| p.borrow().clone())),
    }
}

/// Strip the checkout prefix from a panic location so signatures are stable.
pub fn panic_site(msg: &str) -> String {
    let loc = msg.split(": ").next().unwrap_or(msg);
    match loc.find("/sdk/src/") {
        Some(i) => loc[i + 1..].to_string(),
        None => loc.to_string(),
    }
}
