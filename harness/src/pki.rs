//! `vh::pki` — X.509 hierarchy generator for the checks that need generated credentials
//! (C05 trust decisions, C06 certificate profile, C36/C37 time-stamps and OCSP).
//!
//! Design: certificates are **assembled by hand in DER** (TBSCertificate written field by field) and
//! signed with the `openssl` crate (the same vendored OpenSSL the SDK links). That gives full control
//! over every field a profile rule talks about — version, unique ids, signature algorithm (incl. RSA-PSS
//! parameters, SHA-1, MD5), extension presence / criticality / order — without depending on what
//! `X509Builder` or the `openssl` CLI are willing to emit.
//!
//! Quick tour
//! ```ignore
//! use vh::pki::*;
//! let now = now_epoch();
//! // EE <- intermediate <- root, all P-256, conforming to the C2PA profile
//! let chain = make_chain(&ChainSpec::simple(2, KeyKind::P256, KeyKind::P256, "case-1"), now).unwrap();
//! chain.certs_pem();      // what the signer embeds (EE first, root NOT included unless asked)
//! chain.root_pem();       // trust anchor
//! chain.ee_key_pem();     // PKCS#8 private key of the EE
//! let signer = chain.sdk_signer().unwrap();                 // c2pa::create_signer::from_keys
//! let signer = PkiSigner::from_chain(&chain);               // own c2pa::Signer (stateful variants, TSA hook)
//! // one certificate with arbitrary knobs
//! let mut spec = CertSpec::ee("violating");
//! spec.is_ca = Some(true);
//! let cert_der = make_cert(&spec, &ee_key, Some(&issuer), now).unwrap();
//! ```
//!
//! Everything that is random but irrelevant to a verdict (key material) comes from OpenSSL's RNG; every
//! *decision* (which knob, which fault) must come from the caller (proptest / `vh::rng`).
//!
//! Not generated here: nothing listed in DESIGN §3.3 is missing — RSA-PSS certificate signatures, RSA-PSS
//! SubjectPublicKeyInfo keys, issuer/subjectUniqueID, v1/v2, MD5/SHA-1 are all produced natively.
//! `openssl_cli_verify` shells out to `/usr/bin/openssl verify` (3.0.x) as an independent path oracle.

use std::{
    collections::HashMap,
    path::Path,
    sync::{
        atomic::{AtomicUsize, Ordering},
        Mutex, OnceLock,
    },
};

use openssl::{
    ec::{EcGroup, EcKey},
    ecdsa::EcdsaSig,
    hash::MessageDigest,
    nid::Nid,
    pkey::{Id, PKey, Private},
    pkey_ctx::PkeyCtx,
    rsa::{Padding, Rsa},
    sign::{RsaPssSaltlen, Signer as OsslSigner},
};
use serde::{Deserialize, Serialize};

pub type PkiResult<T> = Result<T, String>;

fn es<E: std::fmt::Display>(e: E) -> String {
    e.to_string()
}

// =====================================================================================================
// DER helpers
// =====================================================================================================

/// Minimal DER writer/reader (definite lengths only).
pub mod der {
    pub fn len(n: usize) -> Vec<u8> {
        if n < 0x80 {
            vec![n as u8]
        } else {
            let b = n.to_be_bytes();
            let first = b.iter().position(|x| *x != 0).unwrap_or(b.len() - 1);
            let mut v = vec![0x80 | (b.len() - first) as u8];
            v.extend_from_slice(&b[first..]);
            v
        }
    }
    pub fn tlv(tag: u8, content: &[u8]) -> Vec<u8> {
        let mut v = vec![tag];
        v.extend(len(content.len()));
        v.extend_from_slice(content);
        v
    }
    pub fn seq(parts: &[Vec<u8>]) -> Vec<u8> {
        tlv(0x30, &parts.concat())
    }
    pub fn set(parts: &[Vec<u8>]) -> Vec<u8> {
        tlv(0x31, &parts.concat())
    }
    /// INTEGER from big-endian magnitude bytes (always non-negative).
    pub fn int_bytes(be: &[u8]) -> Vec<u8> {
        let mut b: Vec<u8> = be.iter().copied().skip_while(|x| *x == 0).collect();
        if b.is_empty() {
            b.push(0);
        }
        if b[0] & 0x80 != 0 {
            b.insert(0, 0);
        }
        tlv(0x02, &b)
    }
    pub fn int_u64(v: u64) -> Vec<u8> {
        int_bytes(&v.to_be_bytes())
    }
    /// OBJECT IDENTIFIER from dotted decimal (panics on malformed input: programmer error).
    pub fn oid(dotted: &str) -> Vec<u8> {
        let arcs: Vec<u64> = dotted.split('.').map(|a| a.trim().parse().expect("oid arc")).collect();
        assert!(arcs.len() >= 2, "oid needs two arcs");
        let mut body = vec![];
        let mut push = |mut v: u64| {
            let mut tmp = vec![(v & 0x7f) as u8];
            v >>= 7;
            while v > 0 {
                tmp.push(0x80 | (v & 0x7f) as u8);
                v >>= 7;
            }
            tmp.reverse();
            body.extend(tmp);
        };
        push(arcs[0] * 40 + arcs[1]);
        for a in &arcs[2..] {
            push(*a);
        }
        tlv(0x06, &body)
    }
    pub fn null() -> Vec<u8> {
        vec![0x05, 0x00]
    }
    pub fn boolean(b: bool) -> Vec<u8> {
        vec![0x01, 0x01, if b { 0xff } else { 0x00 }]
    }
    pub fn octet(b: &[u8]) -> Vec<u8> {
        tlv(0x04, b)
    }
    pub fn bit_string(b: &[u8], unused: u8) -> Vec<u8> {
        let mut c = vec![unused];
        c.extend_from_slice(b);
        tlv(0x03, &c)
    }
    pub fn utf8(s: &str) -> Vec<u8> {
        tlv(0x0c, s.as_bytes())
    }
    pub fn printable(s: &str) -> Vec<u8> {
        tlv(0x13, s.as_bytes())
    }
    /// Context-specific tag `[n]`, constructed (EXPLICIT wrapper) or primitive (IMPLICIT over a primitive).
    pub fn ctx(n: u8, constructed: bool, content: &[u8]) -> Vec<u8> {
        tlv(0x80 | if constructed { 0x20 } else { 0 } | n, content)
    }
    /// Named-bit BIT STRING from a mask whose bit `i` (1 << i) is named bit `i` (DER: trailing zeros trimmed).
    pub fn named_bits(mask: u16) -> Vec<u8> {
        let mut bytes = [0u8; 2];
        for i in 0..16 {
            if mask & (1 << i) != 0 {
                bytes[i / 8] |= 0x80 >> (i % 8);
            }
        }
        let mut v: Vec<u8> = bytes.to_vec();
        while v.last() == Some(&0) {
            v.pop();
        }
        let unused = v.last().map(|b| b.trailing_zeros() as u8).unwrap_or(0);
        bit_string(&v, unused)
    }
    fn civil(epoch: i64) -> (i64, u32, u32, u32, u32, u32) {
        let days = epoch.div_euclid(86400);
        let secs = epoch.rem_euclid(86400);
        let z = days + 719468;
        let era = z.div_euclid(146097);
        let doe = z.rem_euclid(146097);
        let yoe = (doe - doe / 1460 + doe / 36524 - doe / 146096) / 365;
        let y = yoe + era * 400;
        let doy = doe - (365 * yoe + yoe / 4 - yoe / 100);
        let mp = (5 * doy + 2) / 153;
        let d = (doy - (153 * mp + 2) / 5 + 1) as u32;
        let m = if mp < 10 { mp + 3 } else { mp - 9 } as u32;
        let y = if m <= 2 { y + 1 } else { y };
        (y, m, d, (secs / 3600) as u32, ((secs % 3600) / 60) as u32, (secs % 60) as u32)
    }
    /// RFC 5280 `Time`: UTCTime through 2049, GeneralizedTime afterwards.
    pub fn time(epoch: i64) -> Vec<u8> {
        let (y, mo, d, h, mi, s) = civil(epoch);
        if (1950..2050).contains(&y) {
            tlv(0x17, format!("{:02}{:02}{:02}{:02}{:02}{:02}Z", y % 100, mo, d, h, mi, s).as_bytes())
        } else {
            generalized_time(epoch)
        }
    }
    pub fn generalized_time(epoch: i64) -> Vec<u8> {
        let (y, mo, d, h, mi, s) = civil(epoch);
        tlv(0x18, format!("{:04}{:02}{:02}{:02}{:02}{:02}Z", y, mo, d, h, mi, s).as_bytes())
    }
    /// `YYYYMMDDHHMMSSZ` text (e.g. for `openssl ts`/`ocsp` index files).
    pub fn time_text(epoch: i64) -> String {
        let (y, mo, d, h, mi, s) = civil(epoch);
        format!("{:04}{:02}{:02}{:02}{:02}{:02}Z", y, mo, d, h, mi, s)
    }
    /// One TLV: `(tag, content, rest)`; `None` on truncation / indefinite length.
    pub fn read_tlv(input: &[u8]) -> Option<(u8, &[u8], &[u8])> {
        if input.len() < 2 {
            return None;
        }
        let tag = input[0];
        let (l, hdr) = if input[1] < 0x80 {
            (input[1] as usize, 2)
        } else {
            let n = (input[1] & 0x7f) as usize;
            if n == 0 || n > 4 || input.len() < 2 + n {
                return None;
            }
            let mut l = 0usize;
            for b in &input[2..2 + n] {
                l = (l << 8) | *b as usize;
            }
            (l, 2 + n)
        };
        if input.len() < hdr + l {
            return None;
        }
        Some((tag, &input[hdr..hdr + l], &input[hdr + l..]))
    }
    /// Children of a constructed value (content bytes) as raw TLVs.
    pub fn children(mut content: &[u8]) -> Vec<&[u8]> {
        let mut v = vec![];
        while !content.is_empty() {
            match read_tlv(content) {
                Some((_, c, rest)) => {
                    let total = content.len() - rest.len();
                    let _ = c;
                    v.push(&content[..total]);
                    content = rest;
                }
                None => break,
            }
        }
        v
    }
}

// =====================================================================================================
// OIDs and key-usage bits
// =====================================================================================================

pub mod oids {
    pub const EKU_EMAIL_PROTECTION: &str = "1.3.6.1.5.5.7.3.4";
    pub const EKU_DOCUMENT_SIGNING: &str = "1.3.6.1.5.5.7.3.36";
    pub const EKU_TIME_STAMPING: &str = "1.3.6.1.5.5.7.3.8";
    pub const EKU_OCSP_SIGNING: &str = "1.3.6.1.5.5.7.3.9";
    pub const EKU_SERVER_AUTH: &str = "1.3.6.1.5.5.7.3.1";
    pub const EKU_CLIENT_AUTH: &str = "1.3.6.1.5.5.7.3.2";
    pub const EKU_CODE_SIGNING: &str = "1.3.6.1.5.5.7.3.3";
    pub const EKU_ANY: &str = "2.5.29.37.0";
    pub const EKU_C2PA_SIGNING: &str = "1.3.6.1.4.1.62558.2.1";
    pub const EKU_MS_C2PA_SIGNING: &str = "1.3.6.1.4.1.311.76.59.1.9";
    /// A private-arc OID no default list knows (use it with `trust.trust_config`).
    pub const EKU_CUSTOM: &str = "1.3.6.1.4.1.55555.7.1";

    pub const EXT_BASIC_CONSTRAINTS: &str = "2.5.29.19";
    pub const EXT_KEY_USAGE: &str = "2.5.29.15";
    pub const EXT_EXT_KEY_USAGE: &str = "2.5.29.37";
    pub const EXT_SKI: &str = "2.5.29.14";
    pub const EXT_AKI: &str = "2.5.29.35";
    pub const EXT_SAN: &str = "2.5.29.17";
    pub const EXT_AIA: &str = "1.3.6.1.5.5.7.1.1";
    pub const EXT_OCSP_NOCHECK: &str = "1.3.6.1.5.5.7.48.1.5";
    /// Unknown private extension used for the "unhandled critical extension" rule.
    pub const EXT_UNKNOWN: &str = "1.3.6.1.4.1.55555.99.1";
}

/// Key usage named bits (bit `i` of the mask = KeyUsage bit `i`).
pub mod ku {
    pub const DIGITAL_SIGNATURE: u16 = 1 << 0;
    pub const NON_REPUDIATION: u16 = 1 << 1;
    pub const KEY_ENCIPHERMENT: u16 = 1 << 2;
    pub const DATA_ENCIPHERMENT: u16 = 1 << 3;
    pub const KEY_AGREEMENT: u16 = 1 << 4;
    pub const KEY_CERT_SIGN: u16 = 1 << 5;
    pub const CRL_SIGN: u16 = 1 << 6;
    pub const ENCIPHER_ONLY: u16 = 1 << 7;
    pub const DECIPHER_ONLY: u16 = 1 << 8;
}

// =====================================================================================================
// Keys
// =====================================================================================================

#[derive(Clone, Copy, Debug, PartialEq, Eq, Hash, Serialize, Deserialize, PartialOrd, Ord)]
pub enum KeyKind {
    /// rsaEncryption SPKI, 2048 bits
    Rsa2048,
    /// rsaEncryption SPKI, 1024 bits (below the C2PA minimum)
    Rsa1024,
    /// id-RSASSA-PSS SPKI (no parameter restrictions), 2048 bits — like the repository's psNNN fixtures
    RsaPss2048,
    /// id-RSASSA-PSS SPKI, 1024 bits
    RsaPss1024,
    P256,
    P384,
    P521,
    /// not allowed by the C2PA profile
    Secp256k1,
    /// not allowed by the C2PA profile
    P224,
    Ed25519,
}

impl KeyKind {
    pub const CONFORMING: [KeyKind; 6] =
        [KeyKind::P256, KeyKind::P384, KeyKind::P521, KeyKind::Ed25519, KeyKind::Rsa2048, KeyKind::RsaPss2048];

    pub fn name(self) -> &'static str {
        match self {
            KeyKind::Rsa2048 => "rsa2048",
            KeyKind::Rsa1024 => "rsa1024",
            KeyKind::RsaPss2048 => "rsapss2048",
            KeyKind::RsaPss1024 => "rsapss1024",
            KeyKind::P256 => "p256",
            KeyKind::P384 => "p384",
            KeyKind::P521 => "p521",
            KeyKind::Secp256k1 => "secp256k1",
            KeyKind::P224 => "p224",
            KeyKind::Ed25519 => "ed25519",
        }
    }
    pub fn is_rsa(self) -> bool {
        matches!(self, KeyKind::Rsa2048 | KeyKind::Rsa1024 | KeyKind::RsaPss2048 | KeyKind::RsaPss1024)
    }
    pub fn is_rsa_pss_spki(self) -> bool {
        matches!(self, KeyKind::RsaPss2048 | KeyKind::RsaPss1024)
    }
    pub fn is_ec(self) -> bool {
        matches!(self, KeyKind::P256 | KeyKind::P384 | KeyKind::P521 | KeyKind::Secp256k1 | KeyKind::P224)
    }
    /// The COSE algorithm a signer with this key announces (secp256k1 / P-224 have none: ES256 is announced).
    pub fn signing_alg(self) -> c2pa::SigningAlg {
        use c2pa::SigningAlg::*;
        match self {
            KeyKind::P256 | KeyKind::Secp256k1 | KeyKind::P224 => Es256,
            KeyKind::P384 => Es384,
            KeyKind::P521 => Es512,
            KeyKind::Ed25519 => Ed25519,
            _ => Ps256,
        }
    }
    /// Natural digest for certificate signatures made with a key of this kind.
    pub fn natural_digest(self) -> SigDigest {
        match self {
            KeyKind::P384 => SigDigest::Sha384,
            KeyKind::P521 => SigDigest::Sha512,
            _ => SigDigest::Sha256,
        }
    }
}

/// Generate a fresh private key.
pub fn gen_key(kind: KeyKind) -> PkiResult<PKey<Private>> {
    let ec = |nid: Nid| -> PkiResult<PKey<Private>> {
        let g = EcGroup::from_curve_name(nid).map_err(es)?;
        PKey::from_ec_key(EcKey::generate(&g).map_err(es)?).map_err(es)
    };
    let pss = |bits: u32| -> PkiResult<PKey<Private>> {
        let mut ctx = PkeyCtx::new_id(Id::RSA_PSS).map_err(es)?;
        ctx.keygen_init().map_err(es)?;
        ctx.set_rsa_keygen_bits(bits).map_err(es)?;
        ctx.keygen().map_err(es)
    };
    match kind {
        KeyKind::Rsa2048 => PKey::from_rsa(Rsa::generate(2048).map_err(es)?).map_err(es),
        KeyKind::Rsa1024 => PKey::from_rsa(Rsa::generate(1024).map_err(es)?).map_err(es),
        KeyKind::RsaPss2048 => pss(2048),
        KeyKind::RsaPss1024 => pss(1024),
        KeyKind::P256 => ec(Nid::X9_62_PRIME256V1),
        KeyKind::P384 => ec(Nid::SECP384R1),
        KeyKind::P521 => ec(Nid::SECP521R1),
        KeyKind::Secp256k1 => ec(Nid::SECP256K1),
        KeyKind::P224 => ec(Nid::SECP224R1),
        KeyKind::Ed25519 => PKey::generate_ed25519().map_err(es),
    }
}

static POOL: OnceLock<Mutex<HashMap<(KeyKind, usize), PKey<Private>>>> = OnceLock::new();

/// Process-wide key cache: `(kind, slot)` always yields the same key within one process. RSA key
/// generation costs 50–300 ms, so campaigns reuse a handful of slots (key material never decides a verdict).
pub fn pool_key(kind: KeyKind, slot: usize) -> PkiResult<PKey<Private>> {
    let pool = POOL.get_or_init(|| Mutex::new(HashMap::new()));
    if let Some(k) = pool.lock().unwrap().get(&(kind, slot)) {
        return Ok(k.clone());
    }
    let k = gen_key(kind)?;
    let mut g = pool.lock().unwrap();
    Ok(g.entry((kind, slot)).or_insert(k).clone())
}

/// PKCS#8 PEM of a private key.
pub fn key_pem(key: &PKey<Private>) -> PkiResult<Vec<u8>> {
    key.private_key_to_pem_pkcs8().map_err(es)
}

// =====================================================================================================
// Certificate specification
// =====================================================================================================

#[derive(Clone, Copy, Debug, PartialEq, Eq, Hash, Serialize, Deserialize, PartialOrd, Ord)]
pub enum SigDigest {
    /// the issuer key's natural digest (`KeyKind::natural_digest`)
    Auto,
    Sha256,
    Sha384,
    Sha512,
    Sha1,
    Md5,
}

/// One extra extension, DER value given as hex (so that specs stay serialisable).
#[derive(Clone, Debug, PartialEq, Eq, Hash, Serialize, Deserialize)]
pub struct RawExt {
    pub oid: String,
    pub critical: bool,
    /// content of the extnValue OCTET STRING, hex
    pub value_hex: String,
}

/// Everything about one certificate except keys and issuer. All times are offsets in seconds relative to
/// the `now` handed to [`make_cert`] / [`make_chain`].
#[derive(Clone, Debug, PartialEq, Eq, Hash, Serialize, Deserialize)]
pub struct CertSpec {
    /// 1, 2 or 3 (X.509 version as people say it; DER value is version-1). 1 omits the `[0]` field.
    pub version: u8,
    /// `None` = no basicConstraints extension
    pub is_ca: Option<bool>,
    pub bc_critical: bool,
    pub path_len: Option<u32>,
    /// `None` = no keyUsage extension; mask over [`ku`]
    pub key_usage: Option<u16>,
    pub ku_critical: bool,
    /// `None` = no EKU extension; dotted OIDs (see [`oids`])
    pub eku: Option<Vec<String>>,
    pub eku_critical: bool,
    pub not_before_off: i64,
    pub not_after_off: i64,
    /// add an extension with an unknown OID marked critical
    pub critical_unknown_ext: bool,
    /// number of unknown *non-critical* extensions (benign variation)
    pub noncritical_unknown_exts: u8,
    /// authorityKeyIdentifier (keyid form = issuer's SKI value)
    pub aki: bool,
    pub ski: bool,
    pub digest: SigDigest,
    /// sign this certificate with RSASSA-PSS (only meaningful when the issuer key is RSA; forced for
    /// id-RSASSA-PSS issuer keys)
    pub pss: bool,
    pub cn: String,
    /// Organization attribute; the SDK needs one in the *signer* certificate (`issuer_org` of the report)
    pub org: Option<String>,
    /// serial number magnitude, hex (non-empty)
    pub serial_hex: String,
    /// issuerUniqueID `[1]` bit string content, hex (`None` = absent)
    pub issuer_uid_hex: Option<String>,
    /// subjectUniqueID `[2]`
    pub subject_uid_hex: Option<String>,
    /// further extensions appended verbatim
    pub extra_exts: Vec<RawExt>,
    /// omit the extensions field even if extensions are configured (pure v1/v2 shapes)
    pub no_extensions: bool,
}

impl CertSpec {
    /// End-entity certificate conforming to the C2PA signer profile.
    pub fn ee(cn: &str) -> CertSpec {
        CertSpec {
            version: 3,
            is_ca: Some(false),
            bc_critical: true,
            path_len: None,
            key_usage: Some(ku::DIGITAL_SIGNATURE),
            ku_critical: true,
            eku: Some(vec![oids::EKU_EMAIL_PROTECTION.to_string()]),
            eku_critical: false,
            not_before_off: -86_400,
            not_after_off: 365 * 86_400,
            critical_unknown_ext: false,
            noncritical_unknown_exts: 0,
            aki: true,
            ski: true,
            digest: SigDigest::Auto,
            pss: false,
            cn: cn.to_string(),
            org: Some("Verif Harness Signing".to_string()),
            serial_hex: "1001".to_string(),
            issuer_uid_hex: None,
            subject_uid_hex: None,
            extra_exts: vec![],
            no_extensions: false,
        }
    }
    /// CA certificate acceptable to OpenSSL's X509_STRICT (critical basicConstraints, keyCertSign|cRLSign, SKI, AKI).
    pub fn ca(cn: &str) -> CertSpec {
        CertSpec {
            is_ca: Some(true),
            key_usage: Some(ku::KEY_CERT_SIGN | ku::CRL_SIGN),
            eku: None,
            not_before_off: -30 * 86_400,
            not_after_off: 3650 * 86_400,
            org: Some("Verif Harness CA".to_string()),
            serial_hex: "0a01".to_string(),
            ..CertSpec::ee(cn)
        }
    }
    /// Time-stamp authority end-entity (critical EKU timeStamping only, RFC 3161 §2.3).
    pub fn tsa(cn: &str) -> CertSpec {
        CertSpec {
            eku: Some(vec![oids::EKU_TIME_STAMPING.to_string()]),
            eku_critical: true,
            org: Some("Verif Harness TSA".to_string()),
            ..CertSpec::ee(cn)
        }
    }
    /// Delegated OCSP responder end-entity (EKU OCSPSigning + id-pkix-ocsp-nocheck).
    pub fn ocsp_responder(cn: &str) -> CertSpec {
        CertSpec {
            eku: Some(vec![oids::EKU_OCSP_SIGNING.to_string()]),
            org: Some("Verif Harness OCSP".to_string()),
            extra_exts: vec![RawExt {
                oid: oids::EXT_OCSP_NOCHECK.to_string(),
                critical: false,
                value_hex: "0500".to_string(),
            }],
            ..CertSpec::ee(cn)
        }
    }
    /// Add an authorityInfoAccess extension with an OCSP responder URL.
    pub fn with_ocsp_url(mut self, url: &str) -> CertSpec {
        let access = der::seq(&[der::oid("1.3.6.1.5.5.7.48.1"), der::ctx(6, false, url.as_bytes())]);
        self.extra_exts.push(RawExt {
            oid: oids::EXT_AIA.to_string(),
            critical: false,
            value_hex: hex::encode(der::seq(&[access])),
        });
        self
    }
}

/// Issuer side of a certificate: name, signing key and key identifier.
pub struct Issuer<'a> {
    /// DER of the issuer's subject Name
    pub name_der: Vec<u8>,
    pub key: &'a PKey<Private>,
    pub key_kind: KeyKind,
    /// value placed in the subject's authorityKeyIdentifier
    pub ski: Vec<u8>,
}

/// DER `Name` with C, O (optional) and CN.
pub fn name_der(cn: &str, org: Option<&str>) -> Vec<u8> {
    let atv = |oid: &str, v: Vec<u8>| der::set(&[der::seq(&[der::oid(oid), v])]);
    let mut rdns = vec![atv("2.5.4.6", der::printable("US"))];
    if let Some(o) = org {
        rdns.push(atv("2.5.4.10", der::utf8(o)));
    }
    rdns.push(atv("2.5.4.3", der::utf8(cn)));
    der::seq(&rdns)
}

/// Key identifier of a key: SHA-1 over its SubjectPublicKeyInfo (any stable octets are legitimate).
pub fn key_id(key: &PKey<Private>) -> PkiResult<Vec<u8>> {
    let spki = key.public_key_to_der().map_err(es)?;
    Ok(openssl::hash::hash(MessageDigest::sha1(), &spki).map_err(es)?.to_vec())
}

fn md_of(d: SigDigest) -> MessageDigest {
    match d {
        SigDigest::Auto | SigDigest::Sha256 => MessageDigest::sha256(),
        SigDigest::Sha384 => MessageDigest::sha384(),
        SigDigest::Sha512 => MessageDigest::sha512(),
        SigDigest::Sha1 => MessageDigest::sha1(),
        SigDigest::Md5 => MessageDigest::md5(),
    }
}

fn hash_oid(d: SigDigest) -> &'static str {
    match d {
        SigDigest::Auto | SigDigest::Sha256 => "2.16.840.1.101.3.4.2.1",
        SigDigest::Sha384 => "2.16.840.1.101.3.4.2.2",
        SigDigest::Sha512 => "2.16.840.1.101.3.4.2.3",
        SigDigest::Sha1 => "1.3.14.3.2.26",
        SigDigest::Md5 => "1.2.840.113549.2.5",
    }
}

/// AlgorithmIdentifier DER for a certificate signature by a key of `kind`.
pub fn sig_alg_id(kind: KeyKind, digest: SigDigest, pss: bool) -> Vec<u8> {
    let digest = if digest == SigDigest::Auto { kind.natural_digest() } else { digest };
    if kind == KeyKind::Ed25519 {
        return der::seq(&[der::oid("1.3.101.112")]);
    }
    if kind.is_ec() {
        let o = match digest {
            SigDigest::Sha384 => "1.2.840.10045.4.3.3",
            SigDigest::Sha512 => "1.2.840.10045.4.3.4",
            SigDigest::Sha1 | SigDigest::Md5 => "1.2.840.10045.4.1",
            _ => "1.2.840.10045.4.3.2",
        };
        return der::seq(&[der::oid(o)]);
    }
    if pss || kind.is_rsa_pss_spki() {
        let h = der::seq(&[der::oid(hash_oid(digest)), der::null()]);
        let mgf = der::seq(&[der::oid("1.2.840.113549.1.1.8"), h.clone()]);
        let salt = md_of(digest).size() as u64;
        let params = der::seq(&[
            der::ctx(0, true, &h),
            der::ctx(1, true, &mgf),
            der::ctx(2, true, &der::int_u64(salt)),
        ]);
        return der::seq(&[der::oid("1.2.840.113549.1.1.10"), params]);
    }
    let o = match digest {
        SigDigest::Sha384 => "1.2.840.113549.1.1.12",
        SigDigest::Sha512 => "1.2.840.113549.1.1.13",
        SigDigest::Sha1 => "1.2.840.113549.1.1.5",
        SigDigest::Md5 => "1.2.840.113549.1.1.4",
        _ => "1.2.840.113549.1.1.11",
    };
    der::seq(&[der::oid(o), der::null()])
}

/// Sign `tbs` the way a certificate / CRL / OCSP response signature is made by a key of `kind`
/// (RSA PKCS#1 v1.5 or PSS, ECDSA in DER form, pure Ed25519).
pub fn sign_x509(key: &PKey<Private>, kind: KeyKind, digest: SigDigest, pss: bool, tbs: &[u8]) -> PkiResult<Vec<u8>> {
    let digest = if digest == SigDigest::Auto { kind.natural_digest() } else { digest };
    if kind == KeyKind::Ed25519 {
        let mut s = OsslSigner::new_without_digest(key).map_err(es)?;
        return s.sign_oneshot_to_vec(tbs).map_err(es);
    }
    // ECDSA certificates cannot carry MD5; SHA-1 stands in (both are "unsupported" for the profile).
    let md = if kind.is_ec() && digest == SigDigest::Md5 { MessageDigest::sha1() } else { md_of(digest) };
    let mut s = OsslSigner::new(md, key).map_err(es)?;
    if kind.is_rsa() && (pss || kind.is_rsa_pss_spki()) {
        s.set_rsa_padding(Padding::PKCS1_PSS).map_err(es)?;
        s.set_rsa_pss_saltlen(RsaPssSaltlen::DIGEST_LENGTH).map_err(es)?;
        s.set_rsa_mgf1_md(md).map_err(es)?;
    }
    s.update(tbs).map_err(es)?;
    s.sign_to_vec().map_err(es)
}

fn unhex(s: &str) -> PkiResult<Vec<u8>> {
    hex::decode(s).map_err(|e| format!("bad hex {s:?}: {e}"))
}

/// Build one certificate. `issuer = None` makes it self-signed (issuer name = subject name, signed with
/// `subject_key`, AKI = own SKI).
pub fn make_cert(
    spec: &CertSpec,
    subject_key: &PKey<Private>,
    subject_kind: KeyKind,
    issuer: Option<&Issuer<'_>>,
    now: i64,
) -> PkiResult<Vec<u8>> {
    let subject_name = name_der(&spec.cn, spec.org.as_deref());
    let own_ski = key_id(subject_key)?;
    let (issuer_name, issuer_key, issuer_kind, issuer_ski) = match issuer {
        Some(i) => (i.name_der.clone(), i.key, i.key_kind, i.ski.clone()),
        None => (subject_name.clone(), subject_key, subject_kind, own_ski.clone()),
    };
    let alg = sig_alg_id(issuer_kind, spec.digest, spec.pss);

    let mut tbs: Vec<Vec<u8>> = vec![];
    if spec.version != 1 {
        tbs.push(der::ctx(0, true, &der::int_u64(spec.version.saturating_sub(1) as u64)));
    }
    tbs.push(der::int_bytes(&unhex(&spec.serial_hex)?));
    tbs.push(alg.clone());
    tbs.push(issuer_name);
    tbs.push(der::seq(&[der::time(now + spec.not_before_off), der::time(now + spec.not_after_off)]));
    tbs.push(subject_name);
    tbs.push(subject_key.public_key_to_der().map_err(es)?);
    if let Some(u) = &spec.issuer_uid_hex {
        let mut c = vec![0u8];
        c.extend(unhex(u)?);
        tbs.push(der::ctx(1, false, &c));
    }
    if let Some(u) = &spec.subject_uid_hex {
        let mut c = vec![0u8];
        c.extend(unhex(u)?);
        tbs.push(der::ctx(2, false, &c));
    }

    let ext = |oid: &str, critical: bool, value: &[u8]| {
        let mut parts = vec![der::oid(oid)];
        if critical {
            parts.push(der::boolean(true));
        }
        parts.push(der::octet(value));
        der::seq(&parts)
    };
    let mut exts: Vec<Vec<u8>> = vec![];
    if let Some(ca) = spec.is_ca {
        let mut parts = vec![];
        if ca {
            parts.push(der::boolean(true));
        }
        if let Some(pl) = spec.path_len {
            parts.push(der::int_u64(pl as u64));
        }
        exts.push(ext(oids::EXT_BASIC_CONSTRAINTS, spec.bc_critical, &der::seq(&parts)));
    }
    if let Some(mask) = spec.key_usage {
        exts.push(ext(oids::EXT_KEY_USAGE, spec.ku_critical, &der::named_bits(mask)));
    }
    if let Some(list) = &spec.eku {
        let items: Vec<Vec<u8>> = list.iter().map(|o| der::oid(o)).collect();
        exts.push(ext(oids::EXT_EXT_KEY_USAGE, spec.eku_critical, &der::seq(&items)));
    }
    if spec.ski {
        exts.push(ext(oids::EXT_SKI, false, &der::octet(&own_ski)));
    }
    if spec.aki {
        exts.push(ext(oids::EXT_AKI, false, &der::seq(&[der::ctx(0, false, &issuer_ski)])));
    }
    for i in 0..spec.noncritical_unknown_exts {
        exts.push(ext(&format!("1.3.6.1.4.1.55555.98.{}", i + 1), false, &der::utf8("benign")));
    }
    if spec.critical_unknown_ext {
        exts.push(ext(oids::EXT_UNKNOWN, true, &der::utf8("must-understand")));
    }
    for e in &spec.extra_exts {
        exts.push(ext(&e.oid, e.critical, &unhex(&e.value_hex)?));
    }
    if !exts.is_empty() && !spec.no_extensions {
        tbs.push(der::ctx(3, true, &der::seq(&exts)));
    }
    let tbs_der = der::seq(&tbs);
    let sig = sign_x509(issuer_key, issuer_kind, spec.digest, spec.pss, &tbs_der)?;
    Ok(der::seq(&[tbs_der, alg, der::bit_string(&sig, 0)]))
}

// =====================================================================================================
// Hierarchies
// =====================================================================================================

/// Structural / per-certificate faults applied by [`make_chain`]. Levels: 0 = EE, 1 = the CA that issued
/// the EE, …, `depth` = root.
#[derive(Clone, Debug, PartialEq, Eq, Hash, Serialize, Deserialize)]
pub enum Fault {
    /// the certificate at this level is signed with an unrelated key of the right kind (names and AKI still
    /// point at the nominal issuer)
    WrongIssuerKey(usize),
    /// drop the intermediate at this level (1..depth-1) from the supplied list
    MissingIntermediate(usize),
    /// supplied intermediates in reverse order
    ReorderedIntermediates,
    /// the intermediate at this level appears twice in the supplied list
    DuplicatedIntermediate(usize),
    /// the CA at this level carries basicConstraints CA:FALSE
    IntermediateNotCa(usize),
    /// the CA at this level expired a year ago (validity now-2y .. now-1y)
    ExpiredIntermediate(usize),
    /// an unrelated self-signed CA certificate is appended to the supplied list
    UnrelatedExtra,
}

#[derive(Clone, Debug, PartialEq, Eq, Hash, Serialize, Deserialize)]
pub struct ChainSpec {
    /// number of certificates above the EE: 0 = self-signed EE, 1 = EE←root, 2 = EE←int←root, 3 = EE←int←int←root
    pub depth: usize,
    pub ee: CertSpec,
    pub ee_key: KeyKind,
    /// CA specs, closest to the EE first, root last (`len == depth`)
    pub cas: Vec<CertSpec>,
    pub ca_keys: Vec<KeyKind>,
    pub faults: Vec<Fault>,
    /// put the root into the supplied list as well (real signers usually do not)
    pub include_root: bool,
    /// first pool slot used for this chain's keys (levels use slot_base + level)
    pub slot_base: usize,
}

impl ChainSpec {
    /// Conforming hierarchy of the given depth; `tag` makes subject names unique.
    pub fn simple(depth: usize, ee_key: KeyKind, ca_key: KeyKind, tag: &str) -> ChainSpec {
        let mut cas = vec![];
        for l in 1..=depth {
            let mut s = CertSpec::ca(&if l == depth {
                format!("Verif Root {tag}")
            } else {
                format!("Verif Intermediate {l} {tag}")
            });
            s.serial_hex = format!("0a{:02x}", l);
            cas.push(s);
        }
        ChainSpec {
            depth,
            ee: CertSpec::ee(&format!("Verif Signer {tag}")),
            ee_key,
            cas,
            ca_keys: vec![ca_key; depth],
            faults: vec![],
            include_root: false,
            slot_base: 0,
        }
    }
}

/// A generated hierarchy.
pub struct Chain {
    /// pristine hierarchy, EE first, root last (`depth + 1` certificates)
    pub all_der: Vec<Vec<u8>>,
    /// what a signer embeds: EE first, then intermediates after structural faults (root only if asked)
    pub supplied_der: Vec<Vec<u8>>,
    /// private keys per level (0 = EE)
    pub keys: Vec<PKey<Private>>,
    pub key_kinds: Vec<KeyKind>,
    /// unrelated certificates that were appended (`Fault::UnrelatedExtra`)
    pub unrelated_der: Vec<Vec<u8>>,
}

pub fn pem_of(der: &[u8]) -> String {
    use base64::Engine;
    let b64 = base64::engine::general_purpose::STANDARD.encode(der);
    let mut s = String::from("-----BEGIN CERTIFICATE-----\n");
    for ch in b64.as_bytes().chunks(64) {
        s.push_str(std::str::from_utf8(ch).unwrap());
        s.push('\n');
    }
    s.push_str("-----END CERTIFICATE-----\n");
    s
}

pub fn pem_bundle(ders: &[Vec<u8>]) -> String {
    ders.iter().map(|d| pem_of(d)).collect()
}

/// The allow-list "hash line" of a certificate: base64(SHA-256(DER)) (44 characters).
pub fn hash_line(der: &[u8]) -> String {
    use base64::Engine;
    use sha2::Digest;
    base64::engine::general_purpose::STANDARD.encode(sha2::Sha256::digest(der))
}

impl Chain {
    pub fn ee_der(&self) -> &[u8] {
        &self.all_der[0]
    }
    pub fn root_der(&self) -> &[u8] {
        self.all_der.last().unwrap()
    }
    /// supplied certificates (EE first) as one PEM bundle
    pub fn certs_pem(&self) -> String {
        pem_bundle(&self.supplied_der)
    }
    pub fn root_pem(&self) -> String {
        pem_of(self.root_der())
    }
    pub fn ee_key_pem(&self) -> PkiResult<Vec<u8>> {
        key_pem(&self.keys[0])
    }
    /// PEM of the certificate at `level` (0 = EE … depth = root)
    pub fn level_pem(&self, level: usize) -> String {
        pem_of(&self.all_der[level])
    }
    pub fn ee_alg(&self) -> c2pa::SigningAlg {
        self.key_kinds[0].signing_alg()
    }
    /// Signer built by the SDK's own `create_signer::from_keys` (no TSA).
    pub fn sdk_signer(&self) -> PkiResult<Box<dyn c2pa::Signer + Send + Sync>> {
        c2pa::create_signer::from_keys(self.certs_pem().as_bytes(), &self.ee_key_pem()?, self.ee_alg(), None).map_err(es)
    }
    /// [`Issuer`] view of the certificate at `level` (to issue further certificates, e.g. a TSA or OCSP
    /// responder below an intermediate).
    pub fn issuer_at(&self, level: usize, spec: &CertSpec) -> PkiResult<Issuer<'_>> {
        Ok(Issuer {
            name_der: name_der(&spec.cn, spec.org.as_deref()),
            key: &self.keys[level],
            key_kind: self.key_kinds[level],
            ski: key_id(&self.keys[level])?,
        })
    }
}

/// Generate a hierarchy. Keys come from the process-wide pool (`spec.slot_base + level`), so two chains with
/// the same `slot_base` share keys (names and serials still differ).
pub fn make_chain(spec: &ChainSpec, now: i64) -> PkiResult<Chain> {
    if spec.cas.len() != spec.depth || spec.ca_keys.len() != spec.depth {
        return Err("ChainSpec: cas/ca_keys length must equal depth".into());
    }
    let kinds: Vec<KeyKind> = std::iter::once(spec.ee_key).chain(spec.ca_keys.iter().copied()).collect();
    let mut keys = vec![];
    for (l, k) in kinds.iter().enumerate() {
        keys.push(pool_key(*k, spec.slot_base + l)?);
    }
    let mut specs: Vec<CertSpec> = std::iter::once(spec.ee.clone()).chain(spec.cas.iter().cloned()).collect();
    for f in &spec.faults {
        match f {
            Fault::IntermediateNotCa(l) if *l >= 1 && *l <= spec.depth => specs[*l].is_ca = Some(false),
            Fault::ExpiredIntermediate(l) if *l >= 1 && *l <= spec.depth => {
                specs[*l].not_before_off = -2 * 365 * 86_400;
                specs[*l].not_after_off = -365 * 86_400;
            }
            _ => {}
        }
    }
    let mut all: Vec<Vec<u8>> = vec![vec![]; spec.depth + 1];
    for l in (0..=spec.depth).rev() {
        let wrong = spec.faults.iter().any(|f| matches!(f, Fault::WrongIssuerKey(x) if *x == l));
        let der = if l == spec.depth {
            // top of the hierarchy: self-signed (depth 0: the EE itself)
            if wrong {
                let other = pool_key(kinds[l], spec.slot_base + 100 + l)?;
                let iss = Issuer {
                    name_der: name_der(&specs[l].cn, specs[l].org.as_deref()),
                    key: &other,
                    key_kind: kinds[l],
                    ski: key_id(&keys[l])?,
                };
                make_cert(&specs[l], &keys[l], kinds[l], Some(&iss), now)?
            } else {
                make_cert(&specs[l], &keys[l], kinds[l], None, now)?
            }
        } else {
            let up = l + 1;
            let other;
            let signing_key = if wrong {
                other = pool_key(kinds[up], spec.slot_base + 100 + l)?;
                &other
            } else {
                &keys[up]
            };
            let iss = Issuer {
                name_der: name_der(&specs[up].cn, specs[up].org.as_deref()),
                key: signing_key,
                key_kind: kinds[up],
                ski: key_id(&keys[up])?,
            };
            make_cert(&specs[l], &keys[l], kinds[l], Some(&iss), now)?
        };
        all[l] = der;
    }
    // supplied list
    let mut inter: Vec<(usize, Vec<u8>)> = (1..spec.depth).map(|l| (l, all[l].clone())).collect();
    let mut unrelated = vec![];
    for f in &spec.faults {
        match f {
            Fault::MissingIntermediate(l) => inter.retain(|(x, _)| x != l),
            Fault::DuplicatedIntermediate(l) => {
                if let Some(p) = inter.iter().position(|(x, _)| x == l) {
                    let d = inter[p].clone();
                    inter.insert(p, d);
                }
            }
            Fault::ReorderedIntermediates => inter.reverse(),
            _ => {}
        }
    }
    let mut supplied: Vec<Vec<u8>> = vec![all[0].clone()];
    supplied.extend(inter.into_iter().map(|(_, d)| d));
    if spec.include_root && spec.depth >= 1 {
        supplied.push(all[spec.depth].clone());
    }
    if spec.faults.iter().any(|f| matches!(f, Fault::UnrelatedExtra)) {
        let kind = spec.ca_keys.first().copied().unwrap_or(spec.ee_key);
        let k = pool_key(kind, spec.slot_base + 200)?;
        let mut s = CertSpec::ca(&format!("Unrelated CA for {}", spec.ee.cn));
        s.serial_hex = "0bad".into();
        let d = make_cert(&s, &k, kind, None, now)?;
        supplied.push(d.clone());
        unrelated.push(d);
    }
    Ok(Chain { all_der: all, supplied_der: supplied, keys, key_kinds: kinds, unrelated_der: unrelated })
}

// =====================================================================================================
// COSE-level signing with generated keys
// =====================================================================================================

/// Raw signature in the form COSE wants for `alg`: ECDSA as fixed-width r‖s (IEEE P1363), RSASSA-PSS with
/// MGF1 of the same digest and salt = digest length, pure Ed25519.
pub fn cose_sign_raw(key: &PKey<Private>, kind: KeyKind, alg: c2pa::SigningAlg, data: &[u8]) -> PkiResult<Vec<u8>> {
    use c2pa::SigningAlg::*;
    let md = match alg {
        Es256 | Ps256 => MessageDigest::sha256(),
        Es384 | Ps384 => MessageDigest::sha384(),
        Es512 | Ps512 => MessageDigest::sha512(),
        Ed25519 => MessageDigest::null(),
        other => return Err(format!("unsupported COSE algorithm {other}")),
    };
    if kind == KeyKind::Ed25519 {
        let mut s = OsslSigner::new_without_digest(key).map_err(es)?;
        return s.sign_oneshot_to_vec(data).map_err(es);
    }
    let mut s = OsslSigner::new(md, key).map_err(es)?;
    if kind.is_rsa() {
        s.set_rsa_padding(Padding::PKCS1_PSS).map_err(es)?;
        s.set_rsa_pss_saltlen(RsaPssSaltlen::DIGEST_LENGTH).map_err(es)?;
        s.set_rsa_mgf1_md(md).map_err(es)?;
        s.update(data).map_err(es)?;
        return s.sign_to_vec().map_err(es);
    }
    s.update(data).map_err(es)?;
    let der_sig = s.sign_to_vec().map_err(es)?;
    let sig = EcdsaSig::from_der(&der_sig).map_err(es)?;
    let width = match kind {
        KeyKind::P224 => 28,
        KeyKind::P256 | KeyKind::Secp256k1 => 32,
        KeyKind::P384 => 48,
        _ => 66,
    };
    let mut out = sig.r().to_vec_padded(width).map_err(es)?;
    out.extend(sig.s().to_vec_padded(width).map_err(es)?);
    Ok(out)
}

/// Hook answering `Signer::send_timestamp_request` (argument: the RFC 3161 request message the SDK built).
pub type TimestampHook = Box<dyn Fn(&[u8]) -> Option<Result<Vec<u8>, String>> + Send + Sync>;

/// A `c2pa::Signer` over a generated key that does **no** validation of what it embeds.
///
/// `certs()` answers `first_certs` for the first `switch_after` calls and `later_certs` afterwards
/// (`Builder::sign` asks twice: once for the pre-sign profile self-check, once to embed — see C06). With
/// `switch_after = 0` or identical lists it is an ordinary signer. `calls()` reports how often `certs()` ran.
pub struct PkiSigner {
    pub key: PKey<Private>,
    pub kind: KeyKind,
    pub alg: c2pa::SigningAlg,
    pub first_certs: Vec<Vec<u8>>,
    pub later_certs: Vec<Vec<u8>>,
    pub switch_after: usize,
    pub calls: AtomicUsize,
    pub sign_calls: AtomicUsize,
    pub reserve: usize,
    pub timestamper: Option<TimestampHook>,
    pub ocsp: Option<Vec<u8>>,
}

impl PkiSigner {
    pub fn new(key: PKey<Private>, kind: KeyKind, certs: Vec<Vec<u8>>) -> PkiSigner {
        let reserve = 4096 + certs.iter().map(|c| c.len() + 16).sum::<usize>() + 1024;
        PkiSigner {
            key,
            kind,
            alg: kind.signing_alg(),
            first_certs: certs.clone(),
            later_certs: certs,
            switch_after: 0,
            calls: AtomicUsize::new(0),
            sign_calls: AtomicUsize::new(0),
            reserve,
            timestamper: None,
            ocsp: None,
        }
    }
    pub fn from_chain(chain: &Chain) -> PkiSigner {
        PkiSigner::new(chain.keys[0].clone(), chain.key_kinds[0], chain.supplied_der.clone())
    }
    /// Answer `first` for the first `switch_after` calls of `certs()`, the signer's own list afterwards.
    pub fn with_first_answer(mut self, first: Vec<Vec<u8>>, switch_after: usize) -> PkiSigner {
        let extra: usize = first.iter().map(|c| c.len() + 16).sum();
        self.reserve += extra;
        self.first_certs = first;
        self.switch_after = switch_after;
        self
    }
    pub fn with_timestamper(mut self, hook: TimestampHook) -> PkiSigner {
        self.reserve += 8192;
        self.timestamper = Some(hook);
        self
    }
    pub fn with_ocsp(mut self, der: Vec<u8>) -> PkiSigner {
        self.reserve += der.len() + 64;
        self.ocsp = Some(der);
        self
    }
    pub fn calls(&self) -> usize {
        self.calls.load(Ordering::SeqCst)
    }
}

impl c2pa::Signer for PkiSigner {
    fn sign(&self, data: &[u8]) -> c2pa::Result<Vec<u8>> {
        self.sign_calls.fetch_add(1, Ordering::SeqCst);
        cose_sign_raw(&self.key, self.kind, self.alg, data).map_err(c2pa_err)
    }
    fn alg(&self) -> c2pa::SigningAlg {
        self.alg
    }
    fn certs(&self) -> c2pa::Result<Vec<Vec<u8>>> {
        let n = self.calls.fetch_add(1, Ordering::SeqCst);
        Ok(if n < self.switch_after { self.first_certs.clone() } else { self.later_certs.clone() })
    }
    fn reserve_size(&self) -> usize {
        self.reserve
    }
    fn send_timestamp_request(&self, message: &[u8]) -> Option<c2pa::Result<Vec<u8>>> {
        match &self.timestamper {
            Some(h) => h(message).map(|r| r.map_err(c2pa_err)),
            None => None,
        }
    }
    fn ocsp_val(&self) -> Option<Vec<u8>> {
        self.ocsp.clone()
    }
}

fn c2pa_err(s: String) -> c2pa::Error {
    c2pa::Error::BadParam(s)
}

// =====================================================================================================
// Independent oracle: the openssl CLI
// =====================================================================================================

pub const OPENSSL_CLI: &str = "/usr/bin/openssl";

/// Epoch seconds of the wall clock (certificates are generated relative to it; keep margins of days).
pub fn now_epoch() -> i64 {
    std::time::SystemTime::now().duration_since(std::time::UNIX_EPOCH).map(|d| d.as_secs() as i64).unwrap_or(0)
}

/// `openssl verify -x509_strict -partial_chain [-attime t | -no_check_time] -trusted anchors -untrusted chain ee`
/// inside `dir` (files `<tag>-*.pem` are written there). `Ok(true)` = the CLI built and verified a path.
/// `Err` = the CLI could not be run.
pub fn openssl_cli_verify(
    dir: &Path,
    tag: &str,
    ee_der: &[u8],
    untrusted: &[Vec<u8>],
    anchors: &[Vec<u8>],
    at_time: Option<i64>,
) -> PkiResult<(bool, String)> {
    std::fs::create_dir_all(dir).map_err(es)?;
    let p = |n: &str| dir.join(format!("{tag}-{n}.pem"));
    std::fs::write(p("ee"), pem_of(ee_der)).map_err(es)?;
    std::fs::write(p("untrusted"), pem_bundle(untrusted)).map_err(es)?;
    std::fs::write(p("anchors"), pem_bundle(anchors)).map_err(es)?;
    let mut cmd = std::process::Command::new(OPENSSL_CLI);
    cmd.arg("verify").arg("-x509_strict").arg("-partial_chain");
    match at_time {
        Some(t) => {
            cmd.arg("-attime").arg(t.to_string());
        }
        None => {
            cmd.arg("-no_check_time");
        }
    }
    // no system default stores
    cmd.arg("-no-CAfile").arg("-no-CApath").arg("-no-CAstore");
    if !anchors.is_empty() {
        cmd.arg("-trusted").arg(p("anchors"));
    }
    if !untrusted.is_empty() {
        cmd.arg("-untrusted").arg(p("untrusted"));
    }
    cmd.arg(p("ee"));
    cmd.env_remove("OPENSSL_CONF").env_remove("SSL_CERT_FILE").env_remove("SSL_CERT_DIR");
    let out = cmd.output().map_err(|e| format!("cannot run {OPENSSL_CLI}: {e}"))?;
    let text = format!(
        "{}{}",
        String::from_utf8_lossy(&out.stdout).trim(),
        String::from_utf8_lossy(&out.stderr).trim()
    );
    for n in ["ee", "untrusted", "anchors"] {
        let _ = std::fs::remove_file(p(n));
    }
    Ok((out.status.success(), text))
}
