pub mod assets;
pub mod core;
pub mod jumbf_walk;
pub mod pki;
pub mod rng;
pub mod sdk;
pub mod streams;
pub mod walk;
pub use crate::core::{catch, digest, quiet_panics, CaseResult, Fail, Run, Tier};
