pub mod core;
pub mod rng;
pub use crate::core::{catch, digest, quiet_panics, CaseResult, Fail, Run, Tier};
