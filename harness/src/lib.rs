pub mod core;
pub mod rng;
pub mod sdk;
pub use crate::core::{catch, digest, quiet_panics, CaseResult, Fail, Run, Tier};
