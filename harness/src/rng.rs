//! SplitMix64: the only source of randomness outside proptest; always seeded from VERIF_SEED.

#[derive(Clone, Debug)]
pub struct SplitMix64(pub u64);

impl SplitMix64 {
    pub fn new(seed: u64) -> Self {
        SplitMix64(seed)
    }
    pub fn next_u64(&mut self) -> u64 {
        self.0 = self.0.wrapping_add(0x9E3779B97F4A7C15);
        let mut z = self.0;
        z = (z ^ (z >> 30)).wrapping_mul(0xBF58476D1CE4E5B9);
        z = (z ^ (z >> 27)).wrapping_mul(0x94D049BB133111EB);
        z ^ (z >> 31)
    }
    /// Uniform in 0..n (n > 0).
    pub fn below(&mut self, n: u64) -> u64 {
        if n == 0 {
            return 0;
        }
        ((self.next_u64() as u128 * n as u128) >> 64) as u64
    }
    pub fn range(&mut self, lo: u64, hi_incl: u64) -> u64 {
        lo + self.below(hi_incl - lo + 1)
    }
    pub fn usize(&mut self, n: usize) -> usize {
        self.below(n as u64) as usize
    }
    pub fn bool(&mut self) -> bool {
        self.next_u64() & 1 == 1
    }
    pub fn chance(&mut self, num: u64, den: u64) -> bool {
        self.below(den) < num
    }
    pub fn bytes(&mut self, n: usize) -> Vec<u8> {
        let mut v = Vec::with_capacity(n);
        while v.len() < n {
            let x = self.next_u64().to_le_bytes();
            let take = (n - v.len()).min(8);
            v.extend_from_slice(&x[..take]);
        }
        v
    }
    pub fn pick<'a, T>(&mut self, xs: &'a [T]) -> &'a T {
        &xs[self.usize(xs.len())]
    }
    pub fn fork(&mut self) -> SplitMix64 {
        SplitMix64(self.next_u64())
    }
}
