//! Independent container walkers (DESIGN §4.1, §4.2). No SDK parsing code is used: every walker is
//! written from the format's specification and only knows *where* C2PA puts the manifest store
//! (JPEG APP11/JUMBF, PNG `caBX`, GIF `C2PA_GIF` application extension before the first image, RIFF `C2PA`
//! chunk of the first RIFF chunk, TIFF tag 0xCD41 of the last (else first) page IFD, SVG
//! `svg/metadata/c2pa:manifest` base64 text, ID3v2 `GEOB` frame with mime application/c2pa for MP3 **and
//! FLAC** (that is where this SDK writes it — not a FLAC APPLICATION block), JPEG XL `jumb` box, BMFF C2PA
//! `uuid` box with purpose `manifest`, sidecar = whole file).
//!
//! All functions take a kind (`vh::assets::KINDS`), a mime type or a file extension (`family`).
//!
//! * `walk` — top-level units covering the file in order (gaps are reported as `gap` / `trailing` units);
//!   JPEG: segments + `scan` (entropy data incl. RSTn) ; PNG chunks; GIF blocks (`image` = descriptor + LCT +
//!   data); RIFF: `RIFF:<form>` header then the children of the first RIFF chunk, then further RIFF/AVIX
//!   chunks; TIFF: header, IFDs, out-of-line values, strips/tiles sorted by offset; SVG: prolog tokens,
//!   `svg-open`, every child subtree of the root, `svg-close`; MP3/FLAC: ID3 header, frames, padding, then
//!   `audio` (+`ID3v1`) or `fLaC` + metadata blocks + `frames`; JXL/BMFF: top-level boxes.
//! * `manifest_spans` — byte spans of the manifest container(s) (SVG: the `c2pa:manifest` element; TIFF: the
//!   tag's data; BMFF: every C2PA uuid box incl. merkle / update boxes).
//! * `extract_store` — the store bytes as the reader should see them (JPEG segments reassembled, GIF
//!   sub-blocks joined, SVG base64 decoded, JXL = the whole jumb box; BMFF original+update pairs: the
//!   `original` store, the SDK merges the two).
//! * `media_content` — C09 oracle, strict bytes; `media_content_normalised` — same with ID3v2 string frames
//!   brought to UTF-8 (the SDK rewrites ID3 tags as v2.4/UTF-8). Deliberately *not* media content: GIF
//!   version digits (87a→89a is required for extensions), SVG BOM, the `xmlns:c2pa` attribute of the root
//!   element, an empty `<metadata></metadata>`, ID3 header/padding, RIFF/box size fields, TIFF offsets
//!   (replaced by the bytes they address), BMFF stco/co64/iloc offset fields (zeroed, plus one entry per
//!   table entry with the dereferenced bytes: whole chunk via stsc+stsz, iloc extent, else 16 bytes).
//! * `bmff_offset_refs` — the BMFF offset table entries themselves; `sniff` — magic-byte table.

use base64::Engine;

#[derive(Clone, Debug, PartialEq, Eq, Hash, serde::Serialize, serde::Deserialize)]
pub struct Unit {
    pub kind: String,
    pub start: usize,
    pub len: usize,
    pub is_manifest: bool,
    pub payload_start: usize,
    pub payload_len: usize,
}

impl Unit {
    pub fn end(&self) -> usize {
        self.start + self.len
    }
}

const C2PA_STORE_UUID: [u8; 16] =
    [0x63, 0x32, 0x70, 0x61, 0x00, 0x11, 0x00, 0x10, 0x80, 0x00, 0x00, 0xAA, 0x00, 0x38, 0x9B, 0x71];
const BMFF_C2PA_UUID: [u8; 16] =
    [0xd8, 0xfe, 0xc3, 0xd6, 0x1b, 0x0e, 0x48, 0x3c, 0x92, 0x97, 0x58, 0x28, 0x87, 0x7e, 0xc4, 0x81];

/// Container family of a kind / mime type / extension.
pub fn family(k: &str) -> Option<&'static str> {
    let k = k.trim().to_ascii_lowercase();
    Some(match k.as_str() {
        "jpeg" | "jpg" | "image/jpeg" => "jpeg",
        "png" | "image/png" => "png",
        "gif" | "image/gif" => "gif",
        "wav" | "webp" | "avi" | "riff" | "audio/wav" | "audio/wave" | "audio/x-wav" | "audio/vnd.wave" | "image/webp"
        | "video/avi" | "video/msvideo" | "video/x-msvideo" | "application/x-troff-msvideo" => "riff",
        "tiff" | "tif" | "dng" | "arw" | "nef" | "image/tiff" | "image/dng" | "image/x-adobe-dng" | "image/x-sony-arw" | "image/x-nikon-nef" => "tiff",
        "svg" | "image/svg+xml" | "application/svg+xml" => "svg",
        "mp3" | "audio/mpeg" | "audio/mp3" | "audio/x-mp3" | "audio/mpeg3" => "mp3",
        "flac" | "audio/flac" => "flac",
        "jxl" | "image/jxl" => "jxl",
        "mp4" | "mov" | "heic" | "heif" | "avif" | "m4a" | "m4v" | "bmff" | "video/mp4" | "video/quicktime" | "image/heic"
        | "image/heif" | "image/avif" | "audio/mp4" | "application/mp4" | "video/x-m4v" => "bmff",
        "c2pa" | "application/c2pa" | "application/x-c2pa-manifest-store" => "c2pa",
        _ => return None,
    })
}

struct Walked {
    units: Vec<Unit>,
    spans: Vec<(usize, usize)>,
    store: Option<Vec<u8>>,
}

fn walk_full(kind: &str, b: &[u8]) -> Result<Walked, String> {
    let fam = family(kind).ok_or_else(|| format!("walk: unknown kind {kind}"))?;
    let mut w = match fam {
        "jpeg" => walk_jpeg(b)?,
        "png" => walk_png(b)?,
        "gif" => walk_gif(b)?,
        "riff" => walk_riff(b)?,
        "tiff" => walk_tiff(b)?,
        "svg" => walk_svg(b)?,
        "mp3" => walk_id3_audio(b, false)?,
        "flac" => walk_id3_audio(b, true)?,
        "jxl" => walk_jxl(b)?,
        "bmff" => walk_bmff(b)?,
        _ => {
            let u = Unit { kind: "C2PA".into(), start: 0, len: b.len(), is_manifest: !b.is_empty(), payload_start: 0, payload_len: b.len() };
            Walked { units: if b.is_empty() { vec![] } else { vec![u] }, spans: if b.is_empty() { vec![] } else { vec![(0, b.len())] }, store: if b.is_empty() { None } else { Some(b.to_vec()) } }
        }
    };
    w.units.retain(|u| u.len > 0 || u.is_manifest);
    check_cover(&w.units, b.len())?;
    Ok(w)
}

fn check_cover(units: &[Unit], len: usize) -> Result<(), String> {
    let mut at = 0;
    for u in units {
        if u.start != at {
            return Err(format!("walker bug: unit {} starts at {} but previous ended at {}", u.kind, u.start, at));
        }
        if u.payload_start < u.start || u.payload_start + u.payload_len > u.end() {
            return Err(format!("walker bug: payload of {} outside unit", u.kind));
        }
        at = u.end();
    }
    if at != len {
        return Err(format!("walker bug: units end at {at}, file has {len} bytes"));
    }
    Ok(())
}

/// Top-level units covering the file in order.
pub fn walk(kind: &str, bytes: &[u8]) -> Result<Vec<Unit>, String> {
    walk_full(kind, bytes).map(|w| w.units)
}

/// Byte spans `(start, len)` of the C2PA manifest container(s).
pub fn manifest_spans(kind: &str, bytes: &[u8]) -> Result<Vec<(usize, usize)>, String> {
    walk_full(kind, bytes).map(|w| w.spans)
}

/// The embedded manifest store reassembled by the walker (`None` when absent).
pub fn extract_store(kind: &str, bytes: &[u8]) -> Result<Option<Vec<u8>>, String> {
    walk_full(kind, bytes).map(|w| w.store)
}

/// Magic-byte table of the harness → kind.
pub fn sniff(b: &[u8]) -> Option<&'static str> {
    if b.len() >= 3 && b[..3] == [0xFF, 0xD8, 0xFF] {
        return Some("jpeg");
    }
    if b.len() >= 8 && b[..8] == [137, 80, 78, 71, 13, 10, 26, 10] {
        return Some("png");
    }
    if b.len() >= 6 && (&b[..6] == b"GIF87a" || &b[..6] == b"GIF89a") {
        return Some("gif");
    }
    if b.len() >= 12 && &b[..4] == b"RIFF" {
        return match &b[8..12] {
            b"WAVE" => Some("wav"),
            b"WEBP" => Some("webp"),
            b"AVI " => Some("avi"),
            _ => None,
        };
    }
    if b.len() >= 4 && (&b[..4] == b"II*\0" || &b[..4] == b"MM\0*" || &b[..4] == b"II+\0" || &b[..4] == b"MM\0+") {
        return Some("tiff");
    }
    if b.len() >= 12 && b[..12] == [0, 0, 0, 0x0C, b'J', b'X', b'L', b' ', 0x0D, 0x0A, 0x87, 0x0A] {
        return Some("jxl");
    }
    if b.len() >= 4 && &b[..4] == b"fLaC" {
        return Some("flac");
    }
    if b.len() >= 10 && &b[..3] == b"ID3" {
        let n = 10 + syncsafe(&b[6..10]) + if b[5] & 0x10 != 0 { 10 } else { 0 };
        if b.len() >= n + 4 && &b[n..n + 4] == b"fLaC" {
            return Some("flac");
        }
        return Some("mp3");
    }
    if b.len() >= 2 && b[0] == 0xFF && b[1] & 0xE0 == 0xE0 {
        return Some("mp3");
    }
    if b.len() >= 12 && &b[4..8] == b"ftyp" {
        let sz = (be32(b, 0) as usize).clamp(16, b.len());
        let mut brands = vec![&b[8..12]];
        let mut p = 16;
        while p + 4 <= sz {
            brands.push(&b[p..p + 4]);
            p += 4;
        }
        let major = brands[0];
        return Some(match major {
            b"heic" | b"heix" | b"mif1" | b"msf1" | b"hevc" if brands.iter().any(|x| *x == b"avif") => "avif",
            b"avif" | b"avis" => "avif",
            b"heic" | b"heix" | b"mif1" | b"msf1" | b"hevc" | b"heim" | b"heis" => "heic",
            b"qt  " => "mov",
            b"M4A " | b"M4B " => "m4a",
            _ => "mp4",
        });
    }
    if b.len() >= 24 && &b[4..8] == b"jumb" && &b[12..16] == b"jumd" && b[16..32.min(b.len())] == C2PA_STORE_UUID[..(32.min(b.len()) - 16)] {
        return Some("c2pa");
    }
    // XML / SVG: optional BOM, whitespace, then '<'
    let mut s = b;
    if s.len() >= 3 && s[..3] == [0xEF, 0xBB, 0xBF] {
        s = &s[3..];
    }
    let t: Vec<u8> = s.iter().copied().skip_while(|c| c.is_ascii_whitespace()).take(2048).collect();
    if t.starts_with(b"<") {
        let txt = String::from_utf8_lossy(&t);
        if txt.contains("<svg") || txt.starts_with("<?xml") || txt.starts_with("<!--") || txt.starts_with("<!DOCTYPE svg") {
            return Some("svg");
        }
    }
    None
}

fn be16(b: &[u8], p: usize) -> u16 {
    u16::from_be_bytes([b[p], b[p + 1]])
}
fn be32(b: &[u8], p: usize) -> u32 {
    u32::from_be_bytes([b[p], b[p + 1], b[p + 2], b[p + 3]])
}
fn be64(b: &[u8], p: usize) -> u64 {
    let mut a = [0u8; 8];
    a.copy_from_slice(&b[p..p + 8]);
    u64::from_be_bytes(a)
}
fn le32(b: &[u8], p: usize) -> u32 {
    u32::from_le_bytes([b[p], b[p + 1], b[p + 2], b[p + 3]])
}
fn syncsafe(b: &[u8]) -> usize {
    ((b[0] as usize & 0x7F) << 21) | ((b[1] as usize & 0x7F) << 14) | ((b[2] as usize & 0x7F) << 7) | (b[3] as usize & 0x7F)
}
fn unit(kind: impl Into<String>, start: usize, len: usize, pstart: usize, plen: usize) -> Unit {
    Unit { kind: kind.into(), start, len, is_manifest: false, payload_start: pstart, payload_len: plen }
}
fn fourcc(b: &[u8]) -> String {
    b.iter().map(|c| if (0x20..0x7F).contains(c) { *c as char } else { '?' }).collect()
}

/// `d` starts at a `jumd` box (length, "jumd", 16-byte type, toggles, label…): true when the box is
/// labelled "c2pa". A manifest store superbox is recognised by the `c2pa` type prefix of its description
/// UUID *or* by this label, so that a store with a slightly damaged description is still located
/// (judging it is the reader's business, locating it the walker's).
fn jumd_label_is_c2pa(d: &[u8]) -> bool {
    d.len() >= 30 && &d[4..8] == b"jumd" && d[24] & 0x03 == 0x03 && &d[25..30] == b"c2pa\0"
}

// ------------------------------------------------------------------------------------------------
// JPEG
// ------------------------------------------------------------------------------------------------

fn jpeg_marker_name(m: u8) -> String {
    match m {
        0xC0..=0xC3 | 0xC5..=0xC7 | 0xC9..=0xCB | 0xCD..=0xCF => format!("SOF{}", m - 0xC0),
        0xC4 => "DHT".into(),
        0xC8 => "JPG".into(),
        0xCC => "DAC".into(),
        0xD0..=0xD7 => format!("RST{}", m - 0xD0),
        0xD8 => "SOI".into(),
        0xD9 => "EOI".into(),
        0xDA => "SOS".into(),
        0xDB => "DQT".into(),
        0xDC => "DNL".into(),
        0xDD => "DRI".into(),
        0xDE => "DHP".into(),
        0xDF => "EXP".into(),
        0xE0..=0xEF => format!("APP{}", m - 0xE0),
        0xFE => "COM".into(),
        _ => format!("M{m:02X}"),
    }
}

fn walk_jpeg(b: &[u8]) -> Result<Walked, String> {
    if b.len() < 2 || b[0] != 0xFF || b[1] != 0xD8 {
        return Err("jpeg: no SOI".into());
    }
    let mut units = vec![unit("SOI", 0, 2, 2, 0)];
    let mut p = 2;
    let n = b.len();
    let mut saw_eoi = false;
    while p < n {
        if b[p] != 0xFF {
            return Err(format!("jpeg: expected marker at {p}"));
        }
        let start = p;
        // fill bytes
        while p < n && b[p] == 0xFF {
            p += 1;
        }
        if p >= n {
            units.push(unit("fill", start, n - start, start, 0));
            break;
        }
        let m = b[p];
        p += 1;
        if m == 0xD9 {
            units.push(unit("EOI", start, p - start, p, 0));
            saw_eoi = true;
            break;
        }
        if m == 0x01 || (0xD0..=0xD8).contains(&m) || m == 0x00 {
            units.push(unit(jpeg_marker_name(m), start, p - start, p, 0));
            continue;
        }
        if p + 2 > n {
            return Err(format!("jpeg: truncated length at {p}"));
        }
        let l = be16(b, p) as usize;
        if l < 2 || p + l > n {
            return Err(format!("jpeg: bad segment length {l} at {p}"));
        }
        units.push(unit(jpeg_marker_name(m), start, p + l - start, p + 2, l - 2));
        p += l;
        if m == 0xDA {
            // entropy-coded data up to the next marker that is neither stuffing, RSTn nor fill
            let s = p;
            while p < n {
                if b[p] == 0xFF && p + 1 < n {
                    let x = b[p + 1];
                    if x == 0x00 || (0xD0..=0xD7).contains(&x) {
                        p += 2;
                        continue;
                    }
                    if x == 0xFF {
                        p += 1;
                        continue;
                    }
                    break;
                }
                p += 1;
            }
            units.push(unit("scan", s, p - s, s, p - s));
        }
    }
    if saw_eoi && p < n {
        units.push(unit("trailing", p, n - p, p, n - p));
    }
    // C2PA: APP11 JUMBF segments (ISO 19566-5) whose description box has the C2PA store UUID
    let mut c2pa_en: Vec<[u8; 2]> = vec![];
    let mut parts: Vec<(usize, u32)> = vec![]; // (unit index, Z)
    for (i, u) in units.iter_mut().enumerate() {
        if u.kind != "APP11" || u.payload_len < 16 {
            continue;
        }
        let c = &b[u.payload_start..u.payload_start + u.payload_len];
        if &c[0..2] != b"JP" || &c[12..16] != b"jumb" {
            continue;
        }
        let en = [c[2], c[3]];
        let z = be32(c, 4);
        if c2pa_en.contains(&en) {
            u.is_manifest = true;
            parts.push((i, z));
        } else if z == 1 && c.len() >= 40 && &c[20..24] == b"jumd" && (c[24..28] == C2PA_STORE_UUID[..4] || jumd_label_is_c2pa(&c[16..])) {
            c2pa_en.push(en);
            u.is_manifest = true;
            parts.push((i, z));
        }
    }
    let mut store = None;
    if !parts.is_empty() {
        if c2pa_en.len() > 1 {
            return Err("jpeg: more than one C2PA JUMBF box instance".into());
        }
        let mut v = vec![];
        for (k, (i, z)) in parts.iter().enumerate() {
            if *z as usize != k + 1 {
                return Err(format!("jpeg: C2PA APP11 sequence number {z} at position {k}"));
            }
            let u = &units[*i];
            let c = &b[u.payload_start..u.payload_start + u.payload_len];
            v.extend_from_slice(if k == 0 { &c[8..] } else { &c[16..] });
        }
        for (i, _) in &parts {
            units[*i].kind = "C2PA-APP11".into();
        }
        store = Some(v);
    }
    let spans = units.iter().filter(|u| u.is_manifest).map(|u| (u.start, u.len)).collect();
    Ok(Walked { units, spans, store })
}

// ------------------------------------------------------------------------------------------------
// PNG
// ------------------------------------------------------------------------------------------------

fn walk_png(b: &[u8]) -> Result<Walked, String> {
    if b.len() < 8 || b[..8] != [137, 80, 78, 71, 13, 10, 26, 10] {
        return Err("png: bad signature".into());
    }
    let mut units = vec![unit("signature", 0, 8, 8, 0)];
    let mut p = 8;
    let n = b.len();
    let mut store = None;
    let mut end = false;
    while p < n && !end {
        if p + 12 > n {
            return Err(format!("png: truncated chunk header at {p}"));
        }
        let l = be32(b, p) as usize;
        if p + 12 + l > n {
            return Err(format!("png: chunk at {p} exceeds file"));
        }
        let t = &b[p + 4..p + 8];
        let mut u = unit(fourcc(t), p, 12 + l, p + 8, l);
        if t == b"caBX" {
            u.is_manifest = true;
            if store.is_some() {
                return Err("png: more than one caBX chunk".into());
            }
            store = Some(b[p + 8..p + 8 + l].to_vec());
        }
        end = t == b"IEND";
        units.push(u);
        p += 12 + l;
    }
    if !end {
        return Err("png: no IEND".into());
    }
    if p < n {
        units.push(unit("trailing", p, n - p, p, n - p));
    }
    let spans = units.iter().filter(|u| u.is_manifest).map(|u| (u.start, u.len)).collect();
    Ok(Walked { units, spans, store })
}

// ------------------------------------------------------------------------------------------------
// GIF
// ------------------------------------------------------------------------------------------------

/// Skips data sub-blocks starting at `p`; returns the position after the terminator and the payload.
fn gif_sub_blocks(b: &[u8], mut p: usize) -> Result<(usize, Vec<u8>), String> {
    let mut v = vec![];
    loop {
        if p >= b.len() {
            return Err("gif: truncated sub-blocks".into());
        }
        let l = b[p] as usize;
        p += 1;
        if l == 0 {
            return Ok((p, v));
        }
        if p + l > b.len() {
            return Err("gif: sub-block exceeds file".into());
        }
        v.extend_from_slice(&b[p..p + l]);
        p += l;
    }
}

fn walk_gif(b: &[u8]) -> Result<Walked, String> {
    let n = b.len();
    if n < 13 || (&b[..6] != b"GIF87a" && &b[..6] != b"GIF89a") {
        return Err("gif: bad header".into());
    }
    let mut units = vec![unit("header", 0, 6, 0, 6), unit("LSD", 6, 7, 6, 7)];
    let mut p = 13;
    if b[10] & 0x80 != 0 {
        let l = 3usize << ((b[10] & 7) + 1);
        if p + l > n {
            return Err("gif: truncated GCT".into());
        }
        units.push(unit("GCT", p, l, p, l));
        p += l;
    }
    let mut store = None;
    let mut seen_image = false;
    let mut done = false;
    while p < n && !done {
        let start = p;
        match b[p] {
            0x3B => {
                units.push(unit("trailer", p, 1, p + 1, 0));
                p += 1;
                done = true;
            }
            0x2C => {
                if p + 10 > n {
                    return Err("gif: truncated image descriptor".into());
                }
                let packed = b[p + 9];
                p += 10;
                if packed & 0x80 != 0 {
                    p += 3usize << ((packed & 7) + 1);
                }
                if p + 1 > n {
                    return Err("gif: truncated image".into());
                }
                p += 1; // LZW minimum code size
                let (e, _) = gif_sub_blocks(b, p)?;
                units.push(unit("image", start, e - start, p, e - p));
                p = e;
                seen_image = true;
            }
            0x21 => {
                if p + 2 > n {
                    return Err("gif: truncated extension".into());
                }
                let label = b[p + 1];
                let (e, data) = gif_sub_blocks(b, p + 2)?;
                let kind = match label {
                    0xF9 => "gce".to_string(),
                    0xFE => "comment".to_string(),
                    0x01 => "plain-text".to_string(),
                    0xFF => {
                        let id: String = data.iter().take(11).map(|c| if (0x20..0x7F).contains(c) { *c as char } else { '?' }).collect();
                        format!("app:{id}")
                    }
                    x => format!("ext{x:02X}"),
                };
                let mut u = unit(kind, start, e - start, p + 2, e - p - 2);
                if label == 0xFF && b.len() >= p + 14 && b[p + 2] == 11 && &b[p + 3..p + 11] == b"C2PA_GIF" && b[p + 11..p + 14] == [1, 0, 0] {
                    if seen_image {
                        u.kind = "app:C2PA_GIF(after-image)".into();
                    } else {
                        if store.is_some() {
                            return Err("gif: more than one C2PA block".into());
                        }
                        u.is_manifest = true;
                        u.kind = "C2PA".into();
                        u.payload_start = p + 14;
                        u.payload_len = e - (p + 14);
                        store = Some(data[11..].to_vec());
                    }
                }
                units.push(u);
                p = e;
            }
            x => return Err(format!("gif: unknown block introducer {x:#04x} at {p}")),
        }
    }
    if !done {
        return Err("gif: no trailer".into());
    }
    if p < n {
        units.push(unit("trailing", p, n - p, p, n - p));
    }
    let spans = units.iter().filter(|u| u.is_manifest).map(|u| (u.start, u.len)).collect();
    Ok(Walked { units, spans, store })
}

// ------------------------------------------------------------------------------------------------
// RIFF
// ------------------------------------------------------------------------------------------------

fn walk_riff(b: &[u8]) -> Result<Walked, String> {
    let n = b.len();
    if n < 12 || &b[..4] != b"RIFF" {
        return Err("riff: bad header".into());
    }
    let size = le32(b, 4) as usize;
    let end = (8 + size).min(n);
    if 8 + size > n + 1 {
        return Err(format!("riff: declared size {size} exceeds file"));
    }
    let mut units = vec![unit(format!("RIFF:{}", fourcc(&b[8..12])), 0, 12, 8, 4)];
    let mut p = 12;
    let mut store = None;
    while p < end {
        if p + 8 > end {
            return Err(format!("riff: truncated chunk header at {p}"));
        }
        let l = le32(b, p + 4) as usize;
        if p + 8 + l > n {
            return Err(format!("riff: chunk at {p} exceeds file"));
        }
        let id = &b[p..p + 4];
        let padded = (p + 8 + l + (l & 1)).min(n);
        let kind = if (id == b"LIST" || id == b"RIFF") && l >= 4 { format!("{}:{}", fourcc(id), fourcc(&b[p + 8..p + 12])) } else { fourcc(id) };
        let mut u = unit(kind, p, padded - p, p + 8, l);
        if id == b"C2PA" {
            if store.is_some() {
                return Err("riff: more than one C2PA chunk".into());
            }
            u.is_manifest = true;
            store = Some(b[p + 8..p + 8 + l].to_vec());
        }
        units.push(u);
        p = padded;
    }
    // further top-level chunks (OpenDML AVIX) or trailing bytes
    while p < n {
        if p + 8 <= n {
            let id = &b[p..p + 4];
            let l = le32(b, p + 4) as usize;
            if (id == b"RIFF" || id == b"LIST" || id == b"JUNK") && p + 8 + l <= n {
                let padded = (p + 8 + l + (l & 1)).min(n);
                let kind = if l >= 4 && id != b"JUNK" { format!("{}:{}", fourcc(id), fourcc(&b[p + 8..p + 12])) } else { fourcc(id) };
                units.push(unit(kind, p, padded - p, p + 8, l));
                p = padded;
                continue;
            }
        }
        units.push(unit("trailing", p, n - p, p, n - p));
        p = n;
    }
    let spans = units.iter().filter(|u| u.is_manifest).map(|u| (u.start, u.len)).collect();
    Ok(Walked { units, spans, store })
}

// ------------------------------------------------------------------------------------------------
// TIFF
// ------------------------------------------------------------------------------------------------

#[derive(Clone, Debug)]
struct TEntry {
    tag: u16,
    typ: u16,
    count: u64,
    /// position of the value/offset field inside the file
    #[allow(dead_code)]
    field_pos: usize,
    /// where the value bytes are (inline field or out of line) and how many
    val_pos: usize,
    val_len: usize,
    inline: bool,
}

#[derive(Clone, Debug)]
struct TIfd {
    name: String,
    off: usize,
    len: usize,
    entries: Vec<TEntry>,
    next: usize,
    subs: Vec<TIfd>,
}

struct Tiff<'a> {
    b: &'a [u8],
    le: bool,
    big: bool,
}

impl Tiff<'_> {
    fn u16(&self, p: usize) -> Result<u16, String> {
        let s = self.b.get(p..p + 2).ok_or_else(|| format!("tiff: read past end at {p}"))?;
        Ok(if self.le { u16::from_le_bytes([s[0], s[1]]) } else { u16::from_be_bytes([s[0], s[1]]) })
    }
    fn u32(&self, p: usize) -> Result<u32, String> {
        let s = self.b.get(p..p + 4).ok_or_else(|| format!("tiff: read past end at {p}"))?;
        let a = [s[0], s[1], s[2], s[3]];
        Ok(if self.le { u32::from_le_bytes(a) } else { u32::from_be_bytes(a) })
    }
    fn u64(&self, p: usize) -> Result<u64, String> {
        let s = self.b.get(p..p + 8).ok_or_else(|| format!("tiff: read past end at {p}"))?;
        let mut a = [0u8; 8];
        a.copy_from_slice(s);
        Ok(if self.le { u64::from_le_bytes(a) } else { u64::from_be_bytes(a) })
    }
    fn off(&self, p: usize) -> Result<usize, String> {
        if self.big {
            Ok(self.u64(p)? as usize)
        } else {
            Ok(self.u32(p)? as usize)
        }
    }
    fn type_size(t: u16) -> usize {
        match t {
            1 | 2 | 6 | 7 => 1,
            3 | 8 => 2,
            4 | 9 | 11 | 13 => 4,
            5 | 10 | 12 | 16 | 17 | 18 => 8,
            _ => 1,
        }
    }
    /// integer values of an entry (BYTE/SHORT/LONG/LONG8/IFD types)
    fn ints(&self, e: &TEntry) -> Result<Vec<u64>, String> {
        let sz = Self::type_size(e.typ);
        let mut v = vec![];
        for i in 0..e.count as usize {
            let p = e.val_pos + i * sz;
            v.push(match sz {
                1 => *self.b.get(p).ok_or("tiff: value past end")? as u64,
                2 => self.u16(p)? as u64,
                4 => self.u32(p)? as u64,
                _ => self.u64(p)?,
            });
        }
        Ok(v)
    }
    fn read_ifd(&self, off: usize, name: String, depth: usize, seen: &mut Vec<usize>) -> Result<TIfd, String> {
        if depth > 8 || seen.contains(&off) {
            return Err(format!("tiff: IFD cycle or nesting too deep at {off}"));
        }
        seen.push(off);
        let (cnt, esz, cw) = if self.big { (self.u64(off)? as usize, 20, 8) } else { (self.u16(off)? as usize, 12, 2) };
        let fw = if self.big { 8 } else { 4 };
        let len = cw + cnt * esz + fw;
        if off + len > self.b.len() {
            return Err(format!("tiff: IFD at {off} with {cnt} entries exceeds file"));
        }
        let mut entries = vec![];
        for i in 0..cnt {
            let p = off + cw + i * esz;
            let tag = self.u16(p)?;
            let typ = self.u16(p + 2)?;
            let count = if self.big { self.u64(p + 4)? } else { self.u32(p + 4)? as u64 };
            let field_pos = p + 4 + if self.big { 8 } else { 4 };
            let val_len = (count as usize).checked_mul(Self::type_size(typ)).ok_or("tiff: count overflow")?;
            let inline = val_len <= fw;
            let val_pos = if inline { field_pos } else { self.off(field_pos)? };
            if val_pos + val_len > self.b.len() {
                return Err(format!("tiff: value of tag {tag} in IFD at {off} exceeds file"));
            }
            entries.push(TEntry { tag, typ, count, field_pos, val_pos, val_len, inline });
        }
        let next = self.off(off + cw + cnt * esz)?;
        let mut subs = vec![];
        for e in &entries {
            if matches!(e.tag, 330 | 34665 | 34853 | 40965) && matches!(e.typ, 4 | 13 | 16 | 18) {
                for (k, o) in self.ints(e)?.iter().enumerate() {
                    let label = match e.tag {
                        330 => format!("{name}.sub{k}"),
                        34665 => format!("{name}.exif"),
                        34853 => format!("{name}.gps"),
                        _ => format!("{name}.interop"),
                    };
                    subs.push(self.read_ifd(*o as usize, label, depth + 1, seen)?);
                }
            }
        }
        Ok(TIfd { name, off, len, entries, next, subs })
    }
}

fn tiff_open(b: &[u8]) -> Result<(Tiff<'_>, Vec<TIfd>), String> {
    if b.len() < 8 {
        return Err("tiff: too short".into());
    }
    let le = match &b[..2] {
        b"II" => true,
        b"MM" => false,
        _ => return Err("tiff: bad byte order mark".into()),
    };
    let mut t = Tiff { b, le, big: false };
    let magic = t.u16(2)?;
    let first = match magic {
        42 => t.u32(4)? as usize,
        43 => {
            t.big = true;
            if b.len() < 16 {
                return Err("tiff: too short".into());
            }
            t.u64(8)? as usize
        }
        m => return Err(format!("tiff: bad magic {m}")),
    };
    let mut pages = vec![];
    let mut seen = vec![];
    let mut off = first;
    while off != 0 {
        if pages.len() > 4000 {
            return Err("tiff: too many pages".into());
        }
        let ifd = t.read_ifd(off, format!("ifd{}", pages.len()), 0, &mut seen)?;
        off = ifd.next;
        pages.push(ifd);
    }
    if pages.is_empty() {
        return Err("tiff: no IFD".into());
    }
    Ok((t, pages))
}

/// (offsets tag, byte counts tag, label) of image data tables
const TIFF_DATA_TABLES: [(u16, u16, &str); 2] = [(273, 279, "strip"), (324, 325, "tile")];

fn tiff_segments(t: &Tiff, ifd: &TIfd) -> Result<Vec<(String, usize, usize, usize)>, String> {
    // (name, entry position of the offset, target, length)
    let mut v = vec![];
    for (ot, ct, label) in TIFF_DATA_TABLES {
        let (Some(o), Some(c)) = (ifd.entries.iter().find(|e| e.tag == ot), ifd.entries.iter().find(|e| e.tag == ct)) else { continue };
        let offs = t.ints(o)?;
        let cnts = t.ints(c)?;
        let osz = Tiff::type_size(o.typ);
        for (i, off) in offs.iter().enumerate() {
            let len = cnts.get(i).copied().unwrap_or(0) as usize;
            v.push((format!("{}:{label}{i}", ifd.name), o.val_pos + i * osz, *off as usize, len));
        }
    }
    Ok(v)
}

fn tiff_collect_spans(t: &Tiff, ifd: &TIfd, spans: &mut Vec<(usize, usize, String)>) -> Result<(), String> {
    spans.push((ifd.off, ifd.len, ifd.name.clone()));
    for e in &ifd.entries {
        if !e.inline {
            spans.push((e.val_pos, e.val_len, format!("{}:tag{}", ifd.name, e.tag)));
        }
    }
    for (name, _, off, len) in tiff_segments(t, ifd)? {
        if off + len <= t.b.len() {
            spans.push((off, len, name));
        }
    }
    for s in &ifd.subs {
        tiff_collect_spans(t, s, spans)?;
    }
    Ok(())
}

/// The IFD entry holding the manifest: tag 0xCD41 in the last page, else in the first page.
fn tiff_manifest_entry(pages: &[TIfd]) -> Option<(usize, &TEntry)> {
    let last = pages.len() - 1;
    if let Some(e) = pages[last].entries.iter().find(|e| e.tag == 0xCD41) {
        return Some((last, e));
    }
    pages[0].entries.iter().find(|e| e.tag == 0xCD41).map(|e| (0, e))
}

fn walk_tiff(b: &[u8]) -> Result<Walked, String> {
    let (t, pages) = tiff_open(b)?;
    let hdr = if t.big { 16 } else { 8 };
    let mut spans: Vec<(usize, usize, String)> = vec![(0, hdr, "header".into())];
    for p in &pages {
        tiff_collect_spans(&t, p, &mut spans)?;
    }
    let man = tiff_manifest_entry(&pages);
    let mut store = None;
    let mut mspan = None;
    if let Some((pi, e)) = man {
        if e.typ != 7 {
            return Err("tiff: C2PA tag is not of type UNDEFINED".into());
        }
        store = Some(b[e.val_pos..e.val_pos + e.val_len].to_vec());
        mspan = Some((e.val_pos, e.val_len, pi));
    }
    spans.sort_by(|a, b| a.0.cmp(&b.0).then(b.1.cmp(&a.1)));
    let mut units: Vec<Unit> = vec![];
    let mut at = 0usize;
    for (s, l, name) in spans {
        let (mut s, mut l) = (s, l);
        if l == 0 {
            continue;
        }
        if s < at {
            // overlap with an earlier structure: keep only the part not yet covered
            if s + l <= at {
                continue;
            }
            l -= at - s;
            s = at;
        }
        if s > at {
            units.push(unit("gap", at, s - at, at, s - at));
        }
        let mut u = unit(name, s, l, s, l);
        if let Some((ms, ml, _)) = mspan {
            if ms == s && ml == l && u.kind.ends_with(":tag52545") {
                u.is_manifest = true;
                u.kind = "C2PA".into();
            }
        }
        units.push(u);
        at = s + l;
    }
    if at < b.len() {
        units.push(unit("gap", at, b.len() - at, at, b.len() - at));
    }
    let mut mspans = vec![];
    if let Some((ms, ml, _)) = mspan {
        mspans.push((ms, ml));
    }
    Ok(Walked { units, spans: mspans, store })
}

// ------------------------------------------------------------------------------------------------
// SVG (minimal XML tokenizer)
// ------------------------------------------------------------------------------------------------

#[derive(Clone, Debug, PartialEq)]
enum XTok {
    Text,
    Comment,
    Pi,
    Doctype,
    CData,
    Start(String, bool),
    End(String),
}

fn find(b: &[u8], from: usize, pat: &[u8]) -> Option<usize> {
    if from > b.len() {
        return None;
    }
    b[from..].windows(pat.len()).position(|w| w == pat).map(|i| from + i)
}

fn xml_tokens(b: &[u8], mut p: usize) -> Result<Vec<(XTok, usize, usize)>, String> {
    let n = b.len();
    let mut v = vec![];
    while p < n {
        let s = p;
        if b[p] != b'<' {
            while p < n && b[p] != b'<' {
                p += 1;
            }
            v.push((XTok::Text, s, p));
            continue;
        }
        if b[p..].starts_with(b"<!--") {
            let e = find(b, p + 4, b"-->").ok_or("svg: unterminated comment")? + 3;
            v.push((XTok::Comment, s, e));
            p = e;
        } else if b[p..].starts_with(b"<![CDATA[") {
            let e = find(b, p + 9, b"]]>").ok_or("svg: unterminated CDATA")? + 3;
            v.push((XTok::CData, s, e));
            p = e;
        } else if b[p..].starts_with(b"<?") {
            let e = find(b, p + 2, b"?>").ok_or("svg: unterminated PI")? + 2;
            v.push((XTok::Pi, s, e));
            p = e;
        } else if b[p..].starts_with(b"<!") {
            // DOCTYPE, possibly with an internal subset in [...]
            let mut depth = 0i32;
            let mut q = p + 2;
            loop {
                if q >= n {
                    return Err("svg: unterminated doctype".into());
                }
                match b[q] {
                    b'[' => depth += 1,
                    b']' => depth -= 1,
                    b'>' if depth <= 0 => break,
                    _ => {}
                }
                q += 1;
            }
            v.push((XTok::Doctype, s, q + 1));
            p = q + 1;
        } else {
            // start / end / empty-element tag; attribute values may contain '>'
            let mut q = p + 1;
            let mut quote = 0u8;
            loop {
                if q >= n {
                    return Err("svg: unterminated tag".into());
                }
                let c = b[q];
                if quote != 0 {
                    if c == quote {
                        quote = 0;
                    }
                } else if c == b'"' || c == b'\'' {
                    quote = c;
                } else if c == b'>' {
                    break;
                }
                q += 1;
            }
            let inner = &b[p + 1..q];
            let is_end = inner.first() == Some(&b'/');
            let self_close = inner.last() == Some(&b'/');
            let name_bytes: Vec<u8> = inner.iter().copied().skip(if is_end { 1 } else { 0 }).take_while(|c| !c.is_ascii_whitespace() && *c != b'/').collect();
            let name = String::from_utf8_lossy(&name_bytes).to_string();
            v.push((if is_end { XTok::End(name) } else { XTok::Start(name, self_close) }, s, q + 1));
            p = q + 1;
        }
    }
    Ok(v)
}

struct SvgInfo {
    units: Vec<Unit>,
    /// span of the `<c2pa:manifest>` element and of its text, and the index of the unit holding it
    manifest: Option<((usize, usize), (usize, usize), usize)>,
}

fn svg_parse(b: &[u8]) -> Result<SvgInfo, String> {
    let mut units = vec![];
    let mut p = 0;
    if b.starts_with(&[0xEF, 0xBB, 0xBF]) {
        units.push(unit("bom", 0, 3, 0, 3));
        p = 3;
    }
    let toks = xml_tokens(b, p)?;
    let mut depth = 0usize;
    let mut child_start: Option<(usize, String)> = None;
    let mut path: Vec<String> = vec![];
    let mut manifest = None;
    let mut man_elem_start = None;
    let mut man_text: Option<(usize, usize)> = None;
    let mut root_seen = false;
    for (t, s, e) in toks {
        match &t {
            XTok::Start(name, selfc) => {
                if depth == 0 {
                    if root_seen {
                        return Err("svg: more than one root element".into());
                    }
                    root_seen = true;
                    if name != "svg" {
                        return Err(format!("svg: root element is {name}"));
                    }
                    units.push(unit("svg-open", s, e - s, s, e - s));
                    if *selfc {
                        continue;
                    }
                } else if depth == 1 {
                    if *selfc {
                        units.push(unit(name.clone(), s, e - s, s, e - s));
                    } else {
                        child_start = Some((s, name.clone()));
                    }
                }
                if !*selfc {
                    path.push(name.clone());
                    depth += 1;
                    if depth == 3 && path[1] == "metadata" && name == "c2pa:manifest" {
                        if manifest.is_some() || man_elem_start.is_some() {
                            return Err("svg: more than one c2pa:manifest element".into());
                        }
                        man_elem_start = Some(s);
                        man_text = Some((e, 0));
                    }
                }
            }
            XTok::End(name) => {
                if depth == 0 {
                    return Err("svg: unbalanced end tag".into());
                }
                if path.last().map(|x| x.as_str()) != Some(name.as_str()) {
                    return Err(format!("svg: end tag {name} does not match {:?}", path.last()));
                }
                if depth == 3 && man_elem_start.is_some() && name == "c2pa:manifest" && manifest.is_none() {
                    let ms = man_elem_start.unwrap();
                    let (ts, _) = man_text.unwrap();
                    manifest = Some(((ms, e - ms), (ts, s - ts), usize::MAX));
                }
                path.pop();
                depth -= 1;
                if depth == 1 {
                    if let Some((cs, cname)) = child_start.take() {
                        let mut u = unit(cname, cs, e - cs, cs, e - cs);
                        if let Some((mspan, tspan, idx)) = &mut manifest {
                            if *idx == usize::MAX && mspan.0 >= cs && mspan.0 + mspan.1 <= e {
                                u.is_manifest = true;
                                u.payload_start = tspan.0;
                                u.payload_len = tspan.1;
                                *idx = units.len();
                            }
                        }
                        units.push(u);
                    }
                } else if depth == 0 {
                    units.push(unit("svg-close", s, e - s, s, e - s));
                }
            }
            other => {
                if depth <= 1 {
                    let kind = match other {
                        XTok::Text => "text",
                        XTok::Comment => "comment",
                        XTok::Pi => "pi",
                        XTok::Doctype => "doctype",
                        _ => "cdata",
                    };
                    units.push(unit(kind, s, e - s, s, e - s));
                }
            }
        }
    }
    if depth != 0 {
        return Err("svg: unclosed element".into());
    }
    if !root_seen {
        return Err("svg: no root element".into());
    }
    Ok(SvgInfo { units, manifest })
}

fn walk_svg(b: &[u8]) -> Result<Walked, String> {
    let info = svg_parse(b)?;
    let mut store = None;
    let mut spans = vec![];
    if let Some((mspan, tspan, _)) = &info.manifest {
        let txt: Vec<u8> = b[tspan.0..tspan.0 + tspan.1].iter().copied().filter(|c| !c.is_ascii_whitespace()).collect();
        let dec = base64::engine::general_purpose::STANDARD.decode(&txt).map_err(|e| format!("svg: manifest is not base64: {e}"))?;
        if !dec.is_empty() {
            store = Some(dec);
            spans.push(*mspan);
        }
    }
    let mut units = info.units;
    if store.is_none() {
        for u in units.iter_mut() {
            u.is_manifest = false;
        }
    }
    Ok(Walked { units, spans, store })
}

// ------------------------------------------------------------------------------------------------
// ID3v2-prefixed audio: MP3 and FLAC
// ------------------------------------------------------------------------------------------------

fn is_c2pa_mime(m: &[u8]) -> bool {
    m == b"application/c2pa" || m == b"application/x-c2pa-manifest-store"
}

/// Splits a GEOB payload into (mime, data start relative to the payload).
fn geob_parts(d: &[u8]) -> Option<(Vec<u8>, usize)> {
    let enc = *d.first()?;
    let mut p = 1;
    let mime_end = p + d[p..].iter().position(|c| *c == 0)?;
    let mime = d[p..mime_end].to_vec();
    p = mime_end + 1;
    let wide = enc == 1 || enc == 2;
    for _ in 0..2 {
        // filename, description in the text encoding
        if wide {
            loop {
                if p + 2 > d.len() {
                    return None;
                }
                let z = d[p] == 0 && d[p + 1] == 0;
                p += 2;
                if z {
                    break;
                }
            }
        } else {
            p += d[p..].iter().position(|c| *c == 0)? + 1;
        }
    }
    Some((mime, p))
}

fn walk_id3_audio(b: &[u8], flac: bool) -> Result<Walked, String> {
    let n = b.len();
    let mut units = vec![];
    let mut p = 0;
    let mut store = None;
    if n >= 10 && &b[..3] == b"ID3" {
        let major = b[3];
        let flags = b[5];
        if !(2..=4).contains(&major) {
            return Err(format!("id3: unsupported version 2.{major}"));
        }
        let size = syncsafe(&b[6..10]);
        let tag_end = 10 + size;
        if tag_end > n {
            return Err("id3: tag exceeds file".into());
        }
        units.push(unit("ID3-header", 0, 10, 0, 10));
        p = 10;
        if flags & 0x40 != 0 && major >= 3 {
            let l = if major == 4 { syncsafe(&b[p..p + 4]) } else { be32(b, p) as usize + 4 };
            units.push(unit("ID3-extended-header", p, l, p, l));
            p += l;
        }
        let hl = if major == 2 { 6 } else { 10 };
        while p + hl <= tag_end && b[p] != 0 {
            let (id, l) = if major == 2 {
                (fourcc(&b[p..p + 3]), ((b[p + 3] as usize) << 16) | ((b[p + 4] as usize) << 8) | b[p + 5] as usize)
            } else if major == 4 {
                (fourcc(&b[p..p + 4]), syncsafe(&b[p + 4..p + 8]))
            } else {
                (fourcc(&b[p..p + 4]), be32(b, p + 4) as usize)
            };
            if p + hl + l > tag_end {
                return Err(format!("id3: frame {id} at {p} exceeds tag"));
            }
            let mut u = unit(format!("ID3:{id}"), p, hl + l, p + hl, l);
            if id == "GEOB" || id == "GEO" {
                if let Some((mime, ds)) = geob_parts(&b[p + hl..p + hl + l]) {
                    if is_c2pa_mime(&mime) {
                        if store.is_some() {
                            return Err("id3: more than one C2PA GEOB frame".into());
                        }
                        u.is_manifest = true;
                        u.kind = "C2PA-GEOB".into();
                        u.payload_start = p + hl + ds;
                        u.payload_len = l - ds;
                        store = Some(b[p + hl + ds..p + hl + l].to_vec());
                    }
                }
            }
            units.push(u);
            p += hl + l;
        }
        if p < tag_end {
            units.push(unit("ID3-padding", p, tag_end - p, p, tag_end - p));
            p = tag_end;
        }
        if flags & 0x10 != 0 && major == 4 && p + 10 <= n && &b[p..p + 3] == b"3DI" {
            units.push(unit("ID3-footer", p, 10, p, 10));
            p += 10;
        }
    }
    if flac {
        if p + 4 > n || &b[p..p + 4] != b"fLaC" {
            return Err("flac: missing fLaC marker".into());
        }
        units.push(unit("fLaC", p, 4, p, 4));
        p += 4;
        loop {
            if p + 4 > n {
                return Err("flac: truncated metadata block header".into());
            }
            let last = b[p] & 0x80 != 0;
            let t = b[p] & 0x7F;
            let l = ((b[p + 1] as usize) << 16) | ((b[p + 2] as usize) << 8) | b[p + 3] as usize;
            if p + 4 + l > n {
                return Err("flac: metadata block exceeds file".into());
            }
            let name = match t {
                0 => "STREAMINFO".to_string(),
                1 => "PADDING".to_string(),
                2 => "APPLICATION".to_string(),
                3 => "SEEKTABLE".to_string(),
                4 => "VORBIS_COMMENT".to_string(),
                5 => "CUESHEET".to_string(),
                6 => "PICTURE".to_string(),
                x => format!("BLOCK{x}"),
            };
            units.push(unit(name, p, 4 + l, p + 4, l));
            p += 4 + l;
            if last {
                break;
            }
        }
        if p < n {
            units.push(unit("frames", p, n - p, p, n - p));
        }
    } else if p < n {
        let mut end = n;
        if n - p >= 128 && &b[n - 128..n - 125] == b"TAG" {
            end = n - 128;
        }
        if !units.is_empty() || (b[p] == 0xFF && p + 1 < n && b[p + 1] & 0xE0 == 0xE0) {
            if end > p {
                units.push(unit("audio", p, end - p, p, end - p));
            }
            if end < n {
                units.push(unit("ID3v1", end, n - end, end, n - end));
            }
        } else {
            return Err("mp3: neither ID3v2 tag nor MPEG frame sync".into());
        }
    }
    let spans = units.iter().filter(|u| u.is_manifest).map(|u| (u.start, u.len)).collect();
    Ok(Walked { units, spans, store })
}

// ------------------------------------------------------------------------------------------------
// ISO box based: JPEG XL container and BMFF
// ------------------------------------------------------------------------------------------------

#[derive(Clone, Debug)]
struct IsoBox {
    typ: [u8; 4],
    start: usize,
    hdr: usize,
    end: usize,
}

fn iso_boxes(b: &[u8], mut p: usize, end: usize, tolerate_tail: bool) -> Result<Vec<IsoBox>, String> {
    let mut v = vec![];
    while p < end {
        if p + 8 > end {
            if tolerate_tail {
                break;
            }
            return Err(format!("box: truncated header at {p}"));
        }
        let s32 = be32(b, p) as usize;
        let mut typ = [0u8; 4];
        typ.copy_from_slice(&b[p + 4..p + 8]);
        let (hdr, size) = match s32 {
            0 => (8, end - p),
            1 => {
                if p + 16 > end {
                    return Err(format!("box: truncated largesize at {p}"));
                }
                (16, be64(b, p + 8) as usize)
            }
            s => (8, s),
        };
        if size < hdr {
            return Err(format!("box: size {size} smaller than header at {p}"));
        }
        let mut e = p.checked_add(size).ok_or("box: size overflow")?;
        if e > end {
            if &typ == b"mdat" {
                e = end; // truncated mdat: tolerated like most parsers do
            } else {
                return Err(format!("box: {} at {p} exceeds its container", fourcc(&typ)));
            }
        }
        v.push(IsoBox { typ, start: p, hdr, end: e });
        p = e;
    }
    Ok(v)
}

fn walk_jxl(b: &[u8]) -> Result<Walked, String> {
    if b.len() < 12 || b[..12] != [0, 0, 0, 0x0C, b'J', b'X', b'L', b' ', 0x0D, 0x0A, 0x87, 0x0A] {
        return Err("jxl: not a JPEG XL container".into());
    }
    let boxes = iso_boxes(b, 0, b.len(), true)?;
    let mut units = vec![];
    let mut store = None;
    let mut at = 0;
    for x in &boxes {
        let mut u = unit(fourcc(&x.typ), x.start, x.end - x.start, x.start + x.hdr, x.end - x.start - x.hdr);
        let pl = &b[x.start + x.hdr..x.end];
        if &x.typ == b"jumb" && pl.len() >= 25 && &pl[4..8] == b"jumd" && (pl[8..12] == C2PA_STORE_UUID[..4] || jumd_label_is_c2pa(pl)) {
            if store.is_some() {
                return Err("jxl: more than one C2PA jumb box".into());
            }
            u.is_manifest = true;
            u.kind = "C2PA-jumb".into();
            store = Some(b[x.start..x.end].to_vec());
        }
        units.push(u);
        at = x.end;
    }
    if at < b.len() {
        units.push(unit("trailing", at, b.len() - at, at, b.len() - at));
    }
    let spans = units.iter().filter(|u| u.is_manifest).map(|u| (u.start, u.len)).collect();
    Ok(Walked { units, spans, store })
}

/// (purpose, store start, store len) of a C2PA uuid box, positions absolute.
fn bmff_c2pa_parts(b: &[u8], x: &IsoBox) -> Option<(String, usize, usize)> {
    let ps = x.start + x.hdr;
    if &x.typ != b"uuid" || x.end < ps + 16 + 4 || b[ps..ps + 16] != BMFF_C2PA_UUID {
        return None;
    }
    let mut p = ps + 16 + 4;
    let z = b[p..x.end].iter().position(|c| *c == 0)?;
    let purpose = String::from_utf8_lossy(&b[p..p + z]).to_string();
    p += z + 1;
    if purpose == "manifest" || purpose == "original" || purpose == "update" {
        if p + 8 > x.end {
            return None;
        }
        p += 8;
    }
    Some((purpose, p, x.end - p))
}

fn walk_bmff(b: &[u8]) -> Result<Walked, String> {
    if b.len() < 8 {
        return Err("bmff: too short".into());
    }
    let boxes = iso_boxes(b, 0, b.len(), true)?;
    if boxes.is_empty() || &boxes[0].typ != b"ftyp" {
        return Err("bmff: first box is not ftyp".into());
    }
    let mut units = vec![];
    let mut manifest = None;
    let mut original = None;
    let mut at = 0;
    for x in &boxes {
        let mut u = unit(fourcc(&x.typ), x.start, x.end - x.start, x.start + x.hdr, x.end - x.start - x.hdr);
        if let Some((purpose, s, l)) = bmff_c2pa_parts(b, x) {
            u.is_manifest = true;
            u.kind = format!("C2PA-uuid:{purpose}");
            u.payload_start = s;
            u.payload_len = l;
            match purpose.as_str() {
                "manifest" => {
                    if manifest.is_some() {
                        return Err("bmff: more than one C2PA manifest box".into());
                    }
                    manifest = Some(b[s..s + l].to_vec());
                }
                "original" => original = Some(b[s..s + l].to_vec()),
                _ => {}
            }
        }
        units.push(u);
        at = x.end;
    }
    if at < b.len() {
        units.push(unit("trailing", at, b.len() - at, at, b.len() - at));
    }
    let spans = units.iter().filter(|u| u.is_manifest).map(|u| (u.start, u.len)).collect();
    Ok(Walked { units, spans, store: manifest.or(original) })
}

const BMFF_CONTAINERS: [&[u8; 4]; 16] = [
    b"moov", b"trak", b"mdia", b"minf", b"stbl", b"edts", b"udta", b"dinf", b"mvex", b"moof", b"traf", b"mfra", b"meta", b"iprp", b"tref",
    b"schi",
];

/// All boxes under `x` (recursively through known containers) with their slash paths.
fn bmff_descend(b: &[u8], x: &IsoBox, path: &str, depth: usize, out: &mut Vec<(String, IsoBox)>) -> Result<(), String> {
    if depth > 16 || !BMFF_CONTAINERS.contains(&&x.typ) {
        return Ok(());
    }
    let mut ps = x.start + x.hdr;
    if &x.typ == b"meta" {
        // FullBox unless the QuickTime form (child box header follows immediately)
        let qt = x.end >= ps + 8 && &b[ps + 4..ps + 8] == b"hdlr";
        if !qt {
            ps += 4;
        }
    }
    if ps > x.end {
        return Err(format!("bmff: {path} too small"));
    }
    let kids = iso_boxes(b, ps, x.end, false)?;
    let mut counts: std::collections::HashMap<String, usize> = Default::default();
    for k in kids {
        let t = fourcc(&k.typ);
        let c = counts.entry(t.clone()).or_insert(0);
        let p = if &k.typ == b"trak" || &k.typ == b"traf" { format!("{path}/{t}[{c}]") } else { format!("{path}/{t}") };
        *c += 1;
        out.push((p.clone(), k.clone()));
        bmff_descend(b, &k, &p, depth + 1, out)?;
    }
    Ok(())
}

/// One absolute offset stored in a BMFF table and the bytes it addresses.
#[derive(Clone, Debug, PartialEq, Eq, serde::Serialize, serde::Deserialize)]
pub struct BmffRef {
    pub name: String,
    pub entry_pos: usize,
    pub width: u8,
    pub target: u64,
    /// length of the addressed run when the tables allow computing it (chunk size from stsc+stsz, iloc extent length)
    pub target_len: Option<u64>,
}

/// stco / co64 chunk offsets (with chunk lengths from stsc + stsz where consistent) and iloc
/// file-offset extents (construction method 0) of a BMFF file.
pub fn bmff_offset_refs(b: &[u8]) -> Result<Vec<BmffRef>, String> {
    let tops = iso_boxes(b, 0, b.len(), true)?;
    let mut all: Vec<(String, IsoBox)> = vec![];
    for x in &tops {
        let t = fourcc(&x.typ);
        all.push((t.clone(), x.clone()));
        bmff_descend(b, x, &t, 0, &mut all)?;
    }
    let mut refs = vec![];
    // sample tables
    let stbls: Vec<&(String, IsoBox)> = all.iter().filter(|(p, _)| p.ends_with("/stbl")).collect();
    for (sp, _) in stbls {
        let kid = |t: &str| all.iter().find(|(p, _)| p == &format!("{sp}/{t}")).map(|(_, x)| x.clone());
        let co = kid("stco").map(|x| (x, 4usize)).or_else(|| kid("co64").map(|x| (x, 8usize)));
        let Some((co, wd)) = co else { continue };
        let d = co.start + co.hdr;
        if d + 8 > co.end {
            return Err(format!("bmff: {sp} chunk offset box too small"));
        }
        let cnt = be32(b, d + 4) as usize;
        if d + 8 + cnt * wd > co.end {
            return Err(format!("bmff: {sp} chunk offset table exceeds box"));
        }
        // chunk lengths
        let mut lens: Vec<Option<u64>> = vec![None; cnt];
        if let (Some(sc), Some(sz)) = (kid("stsc"), kid("stsz")) {
            let (scd, szd) = (sc.start + sc.hdr, sz.start + sz.hdr);
            if scd + 8 <= sc.end && szd + 12 <= sz.end {
                let nruns = be32(b, scd + 4) as usize;
                let fixed = be32(b, szd + 4) as u64;
                let nsamp = be32(b, szd + 8) as usize;
                let runs_ok = scd + 8 + nruns * 12 <= sc.end;
                let sizes_ok = fixed != 0 || szd + 12 + nsamp * 4 <= sz.end;
                if runs_ok && sizes_ok {
                    let run = |i: usize| (be32(b, scd + 8 + i * 12) as usize, be32(b, scd + 12 + i * 12) as usize);
                    let mut sample = 0usize;
                    let mut r = 0usize;
                    for c in 0..cnt {
                        while r + 1 < nruns && run(r + 1).0 <= c + 1 {
                            r += 1;
                        }
                        if nruns == 0 || run(r).0 > c + 1 {
                            break;
                        }
                        let per = run(r).1;
                        if sample + per > nsamp {
                            break;
                        }
                        let mut l = 0u64;
                        for s in sample..sample + per {
                            l += if fixed != 0 { fixed } else { be32(b, szd + 12 + s * 4) as u64 };
                        }
                        lens[c] = Some(l);
                        sample += per;
                    }
                }
            }
        }
        for c in 0..cnt {
            let pos = d + 8 + c * wd;
            let target = if wd == 4 { be32(b, pos) as u64 } else { be64(b, pos) };
            refs.push(BmffRef { name: format!("{sp}/{}[{c}]", fourcc(&co.typ)), entry_pos: pos, width: wd as u8, target, target_len: lens[c] });
        }
    }
    // item locations
    for (ip, x) in all.iter().filter(|(p, _)| p.ends_with("/iloc")) {
        let full = x.start + x.hdr;
        if full + 4 + 2 > x.end {
            return Err("bmff: iloc too small".into());
        }
        let version = b[full];
        let mut p = full + 4;
        let (osz, lsz) = ((b[p] >> 4) as usize, (b[p] & 15) as usize);
        let (bsz, isz) = ((b[p + 1] >> 4) as usize, if version >= 1 { (b[p + 1] & 15) as usize } else { 0 });
        p += 2;
        let rd = |p: &mut usize, w: usize| -> Result<u64, String> {
            if *p + w > x.end {
                return Err("bmff: iloc truncated".into());
            }
            let mut v = 0u64;
            for i in 0..w {
                v = (v << 8) | b[*p + i] as u64;
            }
            *p += w;
            Ok(v)
        };
        for w in [osz, lsz, bsz, isz] {
            if ![0, 4, 8].contains(&w) {
                return Err(format!("bmff: iloc field size {w}"));
            }
        }
        let nitems = if version < 2 { rd(&mut p, 2)? } else { rd(&mut p, 4)? };
        for _ in 0..nitems {
            let id = if version < 2 { rd(&mut p, 2)? } else { rd(&mut p, 4)? };
            let cm = if version >= 1 { rd(&mut p, 2)? & 15 } else { 0 };
            let _dref = rd(&mut p, 2)?;
            let base_pos = p;
            let base = rd(&mut p, bsz)?;
            let next = rd(&mut p, 2)?;
            if cm == 0 && bsz > 0 && base != 0 {
                // A base offset is only an addend of the item's extents (which are dereferenced below with their
                // real lengths); it is listed as an offset *field* but addresses no bytes of its own. (Dereferencing
                // 16 bytes at the base made C09 compare bytes of the neighbouring C2PA box for short items.)
                refs.push(BmffRef { name: format!("{ip}/item{id}/base"), entry_pos: base_pos, width: bsz as u8, target: base, target_len: Some(0) });
            }
            for e in 0..next {
                if version >= 1 && isz > 0 {
                    rd(&mut p, isz)?;
                }
                let opos = p;
                let eo = rd(&mut p, osz)?;
                let el = rd(&mut p, lsz)?;
                if cm == 0 {
                    if base == 0 && osz > 0 {
                        refs.push(BmffRef { name: format!("{ip}/item{id}/extent{e}"), entry_pos: opos, width: osz as u8, target: eo, target_len: Some(el) });
                    } else {
                        // relative to the base: not an absolute entry, but still addressed media bytes
                        refs.push(BmffRef { name: format!("{ip}/item{id}/extent{e}(base+)"), entry_pos: opos, width: 0, target: base + eo, target_len: Some(el) });
                    }
                }
            }
        }
    }
    Ok(refs)
}

// ------------------------------------------------------------------------------------------------
// media content (C09 oracle)
// ------------------------------------------------------------------------------------------------

fn slice_clamped(b: &[u8], off: u64, len: u64) -> Vec<u8> {
    let n = b.len() as u64;
    if off >= n {
        return vec![];
    }
    b[off as usize..(off + len).min(n) as usize].to_vec()
}

/// Ordered non-manifest units with their payload bytes. For BMFF and TIFF the boxes / IFDs that hold
/// absolute offsets are reported with those fields zeroed, plus one entry per offset table entry with
/// the dereferenced bytes.
pub fn media_content(kind: &str, b: &[u8]) -> Result<Vec<(String, Vec<u8>)>, String> {
    let fam = family(kind).ok_or_else(|| format!("walk: unknown kind {kind}"))?;
    let w = walk_full(kind, b)?;
    let mut out: Vec<(String, Vec<u8>)> = vec![];
    match fam {
        "jpeg" => {
            for u in w.units.iter().filter(|u| !u.is_manifest && u.kind != "fill") {
                out.push((u.kind.clone(), b[u.payload_start..u.payload_start + u.payload_len].to_vec()));
            }
        }
        "png" | "jxl" => {
            for u in w.units.iter().filter(|u| !u.is_manifest && u.kind != "signature") {
                out.push((u.kind.clone(), b[u.payload_start..u.payload_start + u.payload_len].to_vec()));
            }
        }
        "gif" => {
            for u in w.units.iter().filter(|u| !u.is_manifest) {
                if u.kind == "header" {
                    // embedding extensions needs version 89a: the version digits are not media content
                    out.push(("header".into(), b"GIF".to_vec()));
                } else {
                    out.push((u.kind.clone(), b[u.start..u.end()].to_vec()));
                }
            }
        }
        "riff" => {
            for u in w.units.iter().filter(|u| !u.is_manifest) {
                out.push((u.kind.clone(), b[u.payload_start..u.payload_start + u.payload_len].to_vec()));
            }
        }
        "mp3" | "flac" => {
            for u in w.units.iter().filter(|u| !u.is_manifest) {
                if u.kind == "ID3-header" || u.kind == "ID3-padding" || u.kind == "ID3-footer" || u.kind == "ID3-extended-header" {
                    continue;
                }
                out.push((u.kind.clone(), b[u.payload_start..u.payload_start + u.payload_len].to_vec()));
            }
        }
        "svg" => {
            let info = svg_parse(b)?;
            for (i, u) in info.units.iter().enumerate() {
                if u.kind == "bom" {
                    continue; // an encoding signature, not content (the SDK's XML writer drops it)
                }
                let mut bytes = b[u.start..u.end()].to_vec();
                if u.kind == "svg-open" {
                    // the C2PA namespace declaration is part of the embedding, not of the media
                    let s = String::from_utf8_lossy(&bytes).to_string();
                    bytes = s.replace(" xmlns:c2pa=\"http://c2pa.org/manifest\"", "").into_bytes();
                }
                if let Some((mspan, _, idx)) = &info.manifest {
                    if *idx == i {
                        let (rs, re) = (mspan.0 - u.start, mspan.0 + mspan.1 - u.start);
                        bytes.drain(rs..re);
                    }
                }
                if bytes == b"<metadata></metadata>" {
                    continue; // an empty metadata element carries nothing (the SDK adds one when there is none)
                }
                out.push((u.kind.clone(), bytes));
            }
        }
        "tiff" => {
            let (t, pages) = tiff_open(b)?;
            out.push(("header".into(), b[..4].to_vec()));
            fn ifd_content(t: &Tiff, ifd: &TIfd, out: &mut Vec<(String, Vec<u8>)>) -> Result<(), String> {
                let segs = tiff_segments(t, ifd)?;
                for e in &ifd.entries {
                    if e.tag == 0xCD41 {
                        continue;
                    }
                    let is_ptr = matches!(e.tag, 273 | 324 | 330 | 34665 | 34853 | 40965);
                    let val = if is_ptr { vec![] } else { t.b[e.val_pos..e.val_pos + e.val_len].to_vec() };
                    out.push((format!("{}:tag{}:type{}:count{}", ifd.name, e.tag, e.typ, e.count), val));
                }
                for (name, _, off, len) in segs {
                    out.push((name, slice_clamped(t.b, off as u64, len as u64)));
                }
                for s in &ifd.subs {
                    ifd_content(t, s, out)?;
                }
                Ok(())
            }
            for p in &pages {
                if p.entries.len() == 1 && p.entries[0].tag == 0xCD41 {
                    continue; // the IFD the SDK appends for multi-page files
                }
                ifd_content(&t, p, &mut out)?;
            }
        }
        "bmff" => {
            let refs = bmff_offset_refs(b)?;
            for u in w.units.iter().filter(|u| !u.is_manifest) {
                let mut bytes = b[u.payload_start..u.payload_start + u.payload_len].to_vec();
                for r in refs.iter().filter(|r| r.width > 0 && r.entry_pos >= u.payload_start && r.entry_pos < u.end()) {
                    let s = r.entry_pos - u.payload_start;
                    for x in &mut bytes[s..s + r.width as usize] {
                        *x = 0;
                    }
                }
                out.push((u.kind.clone(), bytes));
            }
            for r in &refs {
                let name = if r.target >= b.len() as u64 { format!("{}!oob", r.name) } else { r.name.clone() };
                out.push((name, slice_clamped(b, r.target, r.target_len.unwrap_or(16))));
            }
        }
        _ => {}
    }
    Ok(out)
}

/// `media_content` with the ID3v2 frames that carry encoded strings brought to one canonical form
/// (text encoding byte 3 and UTF-8 strings): the SDK rewrites ID3 tags as v2.4 / UTF-8, which changes
/// the frame bytes but not their meaning. Everything else is identical to `media_content`.
pub fn media_content_normalised(kind: &str, b: &[u8]) -> Result<Vec<(String, Vec<u8>)>, String> {
    let mut v = media_content(kind, b)?;
    if matches!(family(kind), Some("mp3") | Some("flac")) {
        for (name, bytes) in v.iter_mut() {
            if let Some(id) = name.strip_prefix("ID3:") {
                if let Some(n) = id3_normalise(id, bytes) {
                    *bytes = n;
                }
            }
        }
    }
    Ok(v)
}

/// Decodes one string in ID3 text encoding `enc` starting at `p`; `to_end` = not terminated.
fn id3_string(d: &[u8], p: &mut usize, enc: u8, to_end: bool) -> Option<String> {
    let rest = d.get(*p..)?;
    let wide = enc == 1 || enc == 2;
    let (raw, used) = if to_end {
        (rest, rest.len())
    } else if wide {
        let mut i = 0;
        loop {
            if i + 2 > rest.len() {
                return None;
            }
            if rest[i] == 0 && rest[i + 1] == 0 {
                break;
            }
            i += 2;
        }
        (&rest[..i], i + 2)
    } else {
        let i = rest.iter().position(|c| *c == 0)?;
        (&rest[..i], i + 1)
    };
    *p += used;
    Some(match enc {
        0 => raw.iter().map(|c| *c as char).collect(),
        3 => String::from_utf8_lossy(raw).to_string(),
        _ => {
            let mut u: Vec<u16> = vec![];
            let mut be = enc == 2;
            let mut r = raw;
            if enc == 1 && r.len() >= 2 {
                if r[0] == 0xFE && r[1] == 0xFF {
                    be = true;
                    r = &r[2..];
                } else if r[0] == 0xFF && r[1] == 0xFE {
                    r = &r[2..];
                }
            }
            for c in r.chunks_exact(2) {
                u.push(if be { u16::from_be_bytes([c[0], c[1]]) } else { u16::from_le_bytes([c[0], c[1]]) });
            }
            String::from_utf16_lossy(&u)
        }
    })
}

fn id3_normalise(id: &str, d: &[u8]) -> Option<Vec<u8>> {
    // field layout after the encoding byte: L latin-1 terminated, S encoded terminated, E encoded to end,
    // 3 three raw bytes, 1 one raw byte, R raw rest
    let layout: &str = match id {
        "TXXX" | "WXXX" => "SE",
        "COMM" | "USLT" => "3SE",
        "APIC" => "L1SR",
        "GEOB" => "LSSR",
        x if x.starts_with('T') => "E",
        _ => return None,
    };
    let enc = *d.first()?;
    if enc > 3 {
        return None;
    }
    let mut out = vec![3u8];
    let mut p = 1;
    for f in layout.chars() {
        match f {
            'L' => {
                let s = id3_string(d, &mut p, 0, false)?;
                out.extend_from_slice(s.as_bytes());
                out.push(0);
            }
            'S' => {
                let s = id3_string(d, &mut p, enc, false)?;
                out.extend_from_slice(s.as_bytes());
                out.push(0);
            }
            'E' => {
                let s = id3_string(d, &mut p, enc, true)?;
                out.extend_from_slice(s.trim_end_matches('\0').as_bytes());
            }
            '3' => {
                out.extend_from_slice(d.get(p..p + 3)?);
                p += 3;
            }
            '1' => {
                out.push(*d.get(p)?);
                p += 1;
            }
            _ => {
                out.extend_from_slice(d.get(p..)?);
                p = d.len();
            }
        }
    }
    Some(out)
}
