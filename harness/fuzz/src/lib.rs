//! Shared runtime of the C10 fuzz targets.
//!
//! * `init(target)`: called once from `fuzz_target!(init: …)`. Replaces libfuzzer-sys's aborting panic
//!   hook by a silent one that records where a panic happened, loads the allow-list of *open* known
//!   findings from `$VERIF_ROOT_DIR/known_findings.json` (default `/verif`), and registers an `atexit`
//!   handler that writes the per-process counters to `$VERIF_FUZZ_STATS_DIR/<target>-<pid>.json`.
//! * `guard(|| body)`: runs one iteration under `catch_unwind`. A panic whose signature
//!   (`C10:panic:<file>:<line>`, or the signature carried by an in-target oracle) is on the allow-list
//!   is counted and swallowed so that the campaign keeps exploring; everything else prints
//!   `VERIF-PANIC sig=… loc=… msg=…` and aborts (libFuzzer then saves the input as a crash).
//!   `VERIF_FUZZ_STRICT=1` tolerates nothing. An iteration that burns `VERIF_FUZZ_CPU_LIMIT` (default 10)
//!   seconds of *user CPU time* prints `VERIF-SLOW sig=C10:timeout:<target> cpu_s=…` and aborts as well (the
//!   wall-clock `-timeout` of libFuzzer only serves as a hang detector on a loaded machine).
//! * a global allocator wrapper: one allocation request above `VERIF_FUZZ_ALLOC_LIMIT_MB` (default 256) MB
//!   while an input is executed prints `VERIF-ALLOC sig=C10:oom:<innermost SDK frame> size=…` and aborts
//!   (libFuzzer's own `-malloc_limit_mb` hook turned out to be inert in this tool chain).
//! * `ctx()`: a fresh `c2pa::Context` per call (no network fetches, 1 MB decompression limit).
//!
//! Panic signature: the panic location if it lies in the SDK (`sdk/src/...`); otherwise (a dependency or
//! the standard library) the innermost backtrace frame that lies in the SDK, else
//! `dep:<crate-version>/<file>` / `std:<file>`.

use std::{
    alloc::{GlobalAlloc, Layout, System},
    cell::Cell,
    collections::{BTreeMap, BTreeSet},
    panic::{self, AssertUnwindSafe},
    sync::{
        atomic::{AtomicBool, AtomicUsize, Ordering},
        Mutex, OnceLock,
    },
};

// ------------------------------------------------------------------------------------------------
// allocation-size oracle (libFuzzer's -malloc_limit_mb hook is not effective in this tool chain)
// ------------------------------------------------------------------------------------------------

/// Every Rust allocation of the process goes through here (and on to malloc, i.e. to ASan's allocator in the
/// sanitizer build). While an input is being executed (`IN_INPUT`), a single *granted* request above `ALLOC_LIMIT`
/// bytes is a failure of the "never allocates far beyond the input size" half of the property: the signature
/// is `C10:oom:<innermost SDK frame>`; known ones are counted and the allocation proceeds.
pub struct LimitAlloc;

static ALLOC_LIMIT: AtomicUsize = AtomicUsize::new(256 << 20);
static IN_INPUT: AtomicBool = AtomicBool::new(false);
static BIG_IN_INPUT: AtomicBool = AtomicBool::new(false);
thread_local! {
    static IN_HOOK: Cell<bool> = const { Cell::new(false) };
}

#[cold]
fn big_allocation(size: usize) {
    if !IN_INPUT.load(Ordering::Relaxed) {
        return;
    }
    let reentrant = IN_HOOK.try_with(|h| h.replace(true)).unwrap_or(true);
    if reentrant {
        return;
    }
    let site = innermost_sdk_frame().unwrap_or_else(|| TARGET.get().copied().unwrap_or("?").to_string());
    let sig = format!("C10:oom:{site}");
    if allowed(&sig) {
        count(&format!("tolerated:{sig}"));
        // the allocation proceeds; should this input later hit the RSS limit or the CPU budget because of it,
        // the driver attributes that to this known signature (BEGIN without END in the log)
        BIG_IN_INPUT.store(true, Ordering::Relaxed);
        eprintln!("VERIF-BIGALLOC-BEGIN sig={sig} size={size}");
        let _ = IN_HOOK.try_with(|h| h.set(false));
        return;
    }
    eprintln!("VERIF-ALLOC sig={sig} size={size}");
    std::process::abort();
}

unsafe impl GlobalAlloc for LimitAlloc {
    // Only requests that the system allocator *grants* count: a fallible `try_reserve` of an absurd size
    // that fails is handled gracefully by the caller (and an infallible one aborts the process, which is
    // reported as a crash anyway).
    unsafe fn alloc(&self, l: Layout) -> *mut u8 {
        let p = System.alloc(l);
        if l.size() > ALLOC_LIMIT.load(Ordering::Relaxed) && !p.is_null() {
            big_allocation(l.size());
        }
        p
    }
    unsafe fn alloc_zeroed(&self, l: Layout) -> *mut u8 {
        let p = System.alloc_zeroed(l);
        if l.size() > ALLOC_LIMIT.load(Ordering::Relaxed) && !p.is_null() {
            big_allocation(l.size());
        }
        p
    }
    unsafe fn realloc(&self, p: *mut u8, l: Layout, new_size: usize) -> *mut u8 {
        let q = System.realloc(p, l, new_size);
        if new_size > ALLOC_LIMIT.load(Ordering::Relaxed) && !q.is_null() {
            big_allocation(new_size);
        }
        q
    }
    unsafe fn dealloc(&self, p: *mut u8, l: Layout) {
        System.dealloc(p, l)
    }
}

#[global_allocator]
static GLOBAL: LimitAlloc = LimitAlloc;

pub const SETTINGS: &str = r#"{
  "verify": { "remote_manifest_fetch": false, "ocsp_fetch": false },
  "core": { "max_decompressed_manifest_size_in_mb": 1 },
  "builder": { "thumbnail": { "enabled": false } }
}"#;

/// `SETTINGS` parsed once (immutable); every iteration gets a fresh `Context` carrying a copy of it.
fn settings() -> &'static c2pa::settings::Settings {
    static S: OnceLock<c2pa::settings::Settings> = OnceLock::new();
    S.get_or_init(|| c2pa::settings::Settings::new().with_json(SETTINGS).expect("settings"))
}

/// A fresh context (no network fetches, 1 MB decompression limit, no thumbnails).
pub fn ctx() -> c2pa::Context {
    c2pa::Context::new().with_settings(settings()).expect("settings")
}

/// Like `ctx()`, but with the SDK's default automatic thumbnail generation switched on
/// (ingredient ingestion then runs the `image` crate decoders on the untrusted bytes).
pub fn ctx_thumbnails() -> c2pa::Context {
    static S: OnceLock<c2pa::settings::Settings> = OnceLock::new();
    let s = S.get_or_init(|| {
        settings()
            .with_json(r#"{"builder": {"thumbnail": {"enabled": true, "long_edge": 64}}}"#)
            .expect("thumbnail settings")
    });
    c2pa::Context::new().with_settings(s).expect("settings")
}

/// The ed25519 fixture signer (PEM files read once per process).
pub fn signer() -> Box<dyn c2pa::Signer + Send + Sync> {
    static K: OnceLock<(Vec<u8>, Vec<u8>)> = OnceLock::new();
    let (c, k) = K.get_or_init(|| vh::sdk::credential("ed25519"));
    c2pa::create_signer::from_keys(c, k, c2pa::SigningAlg::Ed25519, None).expect("fixture signer")
}

/// Context with explicit settings JSON merged over `SETTINGS`.
pub fn ctx_with(extra: &serde_json::Value) -> c2pa::Context {
    let mut base: serde_json::Value = serde_json::from_str(SETTINGS).unwrap();
    vh::sdk::merge(&mut base, extra);
    c2pa::Context::new().with_settings(base.to_string()).expect("settings")
}

/// Sorted list of every format string the reader accepts (mime types and extensions).
pub fn formats() -> &'static [String] {
    static F: OnceLock<Vec<String>> = OnceLock::new();
    F.get_or_init(|| {
        let mut v = c2pa::Reader::supported_mime_types();
        v.sort();
        v.dedup();
        v
    })
}

pub fn format_for(byte: u8) -> &'static str {
    let f = formats();
    &f[byte as usize % f.len()]
}

#[derive(Clone, Debug, Default)]
struct PanicRec {
    loc: String,
    msg: String,
    sig: String,
}

static TARGET: OnceLock<&'static str> = OnceLock::new();
static ALLOW: OnceLock<BTreeSet<String>> = OnceLock::new();
static STRICT: OnceLock<bool> = OnceLock::new();
static LAST: Mutex<Option<PanicRec>> = Mutex::new(None);
static COUNTS: Mutex<BTreeMap<String, u64>> = Mutex::new(BTreeMap::new());

pub fn count(key: &str) {
    if let Ok(mut c) = COUNTS.lock() {
        *c.entry(key.to_string()).or_insert(0) += 1;
    }
}

fn root_dir() -> String {
    std::env::var("VERIF_ROOT_DIR").unwrap_or_else(|_| "/verif".to_string())
}

fn load_allow() -> BTreeSet<String> {
    let mut set = BTreeSet::new();
    // signatures of known sites that moved to another line (computed by the driver, see c10_run.py relocate())
    if let Ok(extra) = std::env::var("VERIF_C10_ALLOW_EXTRA") {
        for s in extra.split(',').filter(|s| !s.is_empty()) {
            set.insert(s.to_string());
        }
    }
    let path = format!("{}/known_findings.json", root_dir());
    let Ok(txt) = std::fs::read_to_string(&path) else { return set };
    let Ok(v) = serde_json::from_str::<serde_json::Value>(&txt) else { return set };
    if let Some(a) = v.get("findings").and_then(|f| f.as_array()) {
        for e in a {
            let open = e.get("status").and_then(|s| s.as_str()) == Some("open");
            let prop = e.get("property").and_then(|s| s.as_str()).unwrap_or("");
            if open && matches!(prop, "C10" | "C02" | "C18") {
                if let Some(s) = e.get("signature").and_then(|s| s.as_str()) {
                    set.insert(s.to_string());
                }
            }
        }
    }
    set
}

/// `sdk/src/...` for a path inside the SDK crate, whatever the checkout prefix.
fn sdk_relative(file: &str) -> Option<String> {
    if file.contains("/.cargo/") || file.starts_with("/rustc/") {
        return None;
    }
    if let Some(i) = file.find("/sdk/src/") {
        return Some(file[i + 1..].to_string());
    }
    if file.starts_with("sdk/src/") {
        return Some(file.to_string());
    }
    None
}

fn dep_relative(file: &str) -> String {
    if let Some(i) = file.find("/registry/src/") {
        let rest = &file[i + "/registry/src/".len()..];
        // skip the index directory
        if let Some(j) = rest.find('/') {
            return format!("dep:{}", &rest[j + 1..]);
        }
    }
    if file.starts_with("/rustc/") {
        let rest = &file["/rustc/".len()..];
        if let Some(j) = rest.find('/') {
            return format!("std:{}", &rest[j + 1..]);
        }
    }
    if let Some(i) = file.find("/lib/rustlib/src/rust/") {
        return format!("std:{}", &file[i + "/lib/rustlib/src/rust/".len()..]);
    }
    format!("harness:{file}")
}

/// Innermost backtrace frame located in the SDK sources, as `sdk/src/file.rs:line`.
fn innermost_sdk_frame() -> Option<String> {
    // the first symbolisation of a process parses the whole debug info (~10 s of CPU): not the input's fault
    let t0 = cpu_now();
    let r = innermost_sdk_frame_inner();
    let spent = ((cpu_now() - t0).max(0.0) * 1e6) as usize;
    HOOK_CPU_US.fetch_add(spent, Ordering::Relaxed);
    r
}

/// User CPU microseconds spent inside the harness's own symbolisation (excluded from the per-input budget).
static HOOK_CPU_US: AtomicUsize = AtomicUsize::new(0);

fn innermost_sdk_frame_inner() -> Option<String> {
    let bt = std::backtrace::Backtrace::force_capture().to_string();
    for line in bt.lines() {
        let l = line.trim();
        if let Some(rest) = l.strip_prefix("at ") {
            // "at /repo/sdk/src/x.rs:12:34"
            let mut parts = rest.rsplitn(3, ':');
            let _col = parts.next();
            let line_no = parts.next();
            let file = parts.next();
            if let (Some(file), Some(line_no)) = (file, line_no) {
                if let Some(rel) = sdk_relative(file) {
                    if !rel.ends_with("verif_hooks.rs") {
                        return Some(format!("{rel}:{line_no}"));
                    }
                }
            }
        }
    }
    None
}

fn signature_of(file: &str, line: u32) -> String {
    if let Some(rel) = sdk_relative(file) {
        return format!("C10:panic:{rel}:{line}");
    }
    let dep = dep_relative(file);
    if dep.starts_with("harness:") {
        return format!("C10:panic:{dep}:{line}");
    }
    match innermost_sdk_frame() {
        Some(f) => format!("C10:panic:{f}"),
        None => format!("C10:panic:{dep}:{line}"),
    }
}

extern "C" fn dump_stats() {
    let Ok(dir) = std::env::var("VERIF_FUZZ_STATS_DIR") else { return };
    let target = TARGET.get().copied().unwrap_or("?");
    let counts = match COUNTS.lock() {
        Ok(c) => c.clone(),
        Err(_) => return,
    };
    let v = serde_json::json!({ "target": target, "pid": std::process::id(), "counts": counts });
    let _ = std::fs::create_dir_all(&dir);
    let _ = std::fs::write(format!("{dir}/{target}-{}.json", std::process::id()), v.to_string());
}

pub fn init(target: &'static str) {
    let _ = TARGET.set(target);
    let _ = ALLOW.set(load_allow());
    let _ = STRICT.set(std::env::var("VERIF_FUZZ_STRICT").map(|v| v == "1").unwrap_or(false));
    panic::set_hook(Box::new(|info| {
        let (file, line) = info.location().map(|l| (l.file().to_string(), l.line())).unwrap_or(("?".into(), 0));
        let msg = if let Some(s) = info.payload().downcast_ref::<&str>() {
            s.to_string()
        } else if let Some(s) = info.payload().downcast_ref::<String>() {
            s.clone()
        } else {
            "panic".to_string()
        };
        let sig = if let Some(s) = oracle_signature(&msg) { s } else { signature_of(&file, line) };
        if let Ok(mut l) = LAST.lock() {
            // keep the first panic of an iteration (a panic while unwinding would abort anyway)
            if l.is_none() {
                *l = Some(PanicRec { loc: format!("{file}:{line}"), msg, sig });
            }
        }
    }));
    unsafe {
        libc::atexit(dump_stats);
    }
    // force the lazy tables now so that they are not attributed to the first input
    let _ = formats();
    let _ = settings();
    if let Some(mb) = std::env::var("VERIF_FUZZ_ALLOC_LIMIT_MB").ok().and_then(|v| v.parse::<usize>().ok()) {
        ALLOC_LIMIT.store(mb << 20, Ordering::Relaxed);
    }
    let _ = CPU_LIMIT.set(std::env::var("VERIF_FUZZ_CPU_LIMIT").ok().and_then(|v| v.parse::<f64>().ok()).unwrap_or(10.0));
}

static CPU_LIMIT: OnceLock<f64> = OnceLock::new();

/// User-mode CPU seconds consumed by this process so far. Wall-clock time is useless on a shared machine and
/// kernel time (page faults of the sanitizer's shadow memory) inflates with contention, so neither is used.
fn cpu_now() -> f64 {
    let mut ru: libc::rusage = unsafe { std::mem::zeroed() };
    unsafe {
        libc::getrusage(libc::RUSAGE_SELF, &mut ru);
    }
    ru.ru_utime.tv_sec as f64 + ru.ru_utime.tv_usec as f64 * 1e-6
}

/// In-target oracles panic with `"<ID>-ORACLE: sig=<signature> :: <details>"`.
fn oracle_signature(msg: &str) -> Option<String> {
    if !(msg.starts_with("C02-ORACLE:") || msg.starts_with("C18-ORACLE:")) {
        return None;
    }
    let i = msg.find("sig=")?;
    let rest = &msg[i + 4..];
    let end = rest.find(" ::").unwrap_or(rest.len());
    Some(rest[..end].trim().to_string())
}

fn allowed(sig: &str) -> bool {
    if *STRICT.get().unwrap_or(&false) {
        return false;
    }
    let Some(allow) = ALLOW.get() else { return false };
    if allow.contains(sig) {
        return true;
    }
    // an oracle signature `C10:c18-oracle:<x>` is also covered by the owning check's entry `C18:<x>`
    for (pfx, owner) in [("C10:c18-oracle:", "C18:"), ("C10:c02-oracle:", "C02:")] {
        if let Some(x) = sig.strip_prefix(pfx) {
            if allow.contains(&format!("{owner}{x}")) {
                return true;
            }
        }
    }
    false
}

/// Run one iteration; see the module documentation.
pub fn guard<F: FnOnce()>(f: F) {
    if let Ok(mut l) = LAST.lock() {
        *l = None;
    }
    let t0 = cpu_now();
    let h0 = HOOK_CPU_US.load(Ordering::Relaxed);
    IN_INPUT.store(true, Ordering::Relaxed);
    let r = panic::catch_unwind(AssertUnwindSafe(f));
    IN_INPUT.store(false, Ordering::Relaxed);
    let used = cpu_now() - t0 - (HOOK_CPU_US.load(Ordering::Relaxed) - h0) as f64 * 1e-6;
    let had_big = BIG_IN_INPUT.swap(false, Ordering::Relaxed);
    if had_big {
        eprintln!("VERIF-BIGALLOC-END");
    }
    if used >= *CPU_LIMIT.get().unwrap_or(&10.0) && had_big {
        // zero-filling / poisoning a tolerated giant buffer is what took the time
        count("slow_after_tolerated_big_allocation");
    } else if used >= *CPU_LIMIT.get().unwrap_or(&10.0) {
        // the "never runs unboundedly long" half of the property, judged on CPU time of this one input
        let sig = format!("C10:timeout:{}", TARGET.get().copied().unwrap_or("?"));
        if allowed(&sig) {
            count(&format!("tolerated:{sig}"));
        } else {
            eprintln!("VERIF-SLOW sig={sig} cpu_s={used:.1}");
            std::process::abort();
        }
    }
    if r.is_ok() {
        return;
    }
    let rec = LAST.lock().ok().and_then(|mut l| l.take()).unwrap_or(PanicRec {
        loc: "?".into(),
        msg: "panic on another thread or without hook".into(),
        sig: "C10:panic:unknown".into(),
    });
    if allowed(&rec.sig) {
        count(&format!("tolerated:{}", rec.sig));
        return;
    }
    let one_line: String = rec.msg.chars().map(|c| if c == '\n' { ' ' } else { c }).take(600).collect();
    eprintln!("VERIF-PANIC sig={} loc={} msg={}", rec.sig, rec.loc, one_line);
    std::process::abort();
}

/// Exercise a successfully built reader the way an application would.
pub fn exercise(r: &c2pa::Reader) {
    let _ = r.json();
    let _ = r.detailed_json();
    let _ = r.validation_state();
    let _ = r.validation_results();
    let _ = r.active_label();
    if let Some(m) = r.active_manifest() {
        let _ = m.title();
        let _ = m.ingredients().len();
        let _ = m.assertions().len();
        if let Some(t) = m.thumbnail_ref() {
            let mut out = std::io::Cursor::new(Vec::new());
            let _ = r.resource_to_stream(&t.identifier, &mut out);
        }
    }
}
