//! fuzz_read: byte 0 selects the format hint among `Reader::supported_mime_types()` (sorted), the rest
//! is the asset. `Reader::with_stream` under that hint, then the report accessors.
#![no_main]
use std::io::Cursor;

use libfuzzer_sys::fuzz_target;

fuzz_target!(init: fz::init("fuzz_read"), |data: &[u8]| {
    if data.is_empty() {
        return;
    }
    let hint = fz::format_for(data[0]);
    let body = &data[1..];
    fz::guard(|| {
        let ctx = fz::ctx();
        if let Ok(r) = c2pa::Reader::from_context(ctx).with_stream(hint, Cursor::new(body)) {
            fz::exercise(&r);
        }
    });
});
