//! fuzz_store_rt (carries the C18 oracle): bytes → `verif_hooks::store_roundtrip` (parse + re-serialise).
//! When the parser accepts the input and produces r1, r1 must be accepted again and re-serialise to
//! exactly r1 (canonical fixed point); otherwise `panic!("C18-ORACLE: …")`.
#![no_main]
use libfuzzer_sys::fuzz_target;

fn token(e: &str) -> String {
    e.split_whitespace()
        .take(4)
        .collect::<Vec<_>>()
        .join("-")
        .chars()
        .filter(|c| c.is_ascii_alphanumeric() || *c == '-')
        .collect::<String>()
        .to_lowercase()
}

fuzz_target!(init: fz::init("fuzz_store_rt"), |data: &[u8]| {
    fz::guard(|| {
        let ctx = fz::ctx();
        let Ok(r1) = c2pa::verif_hooks::store_roundtrip(data, &ctx) else { return };
        fz::count("accepted");
        match c2pa::verif_hooks::store_roundtrip(&r1, &ctx) {
            Err(e) => {
                let e = e.to_string();
                panic!(
                    "C18-ORACLE: sig=C10:c18-oracle:rt-output-rejected:{} :: the parser accepts the input ({} bytes) but rejects its own re-serialisation ({} bytes): {e}",
                    token(&e),
                    data.len(),
                    r1.len()
                );
            }
            Ok(r2) => {
                if r2 != r1 {
                    let at = r1.iter().zip(r2.iter()).position(|(a, b)| a != b).unwrap_or(r1.len().min(r2.len()));
                    panic!(
                        "C18-ORACLE: sig=C10:c18-oracle:not-a-fixed-point :: rt(rt(m)) != rt(m): lengths {} -> {}, first difference at offset {at}",
                        r1.len(),
                        r2.len()
                    );
                }
            }
        }
    });
});
