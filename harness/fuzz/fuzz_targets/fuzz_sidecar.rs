//! fuzz_sidecar: [fmt] [len:3 LE] manifest ‖ asset → `Reader::with_manifest_data_and_stream`.
#![no_main]
use std::io::Cursor;

use libfuzzer_sys::fuzz_target;

fuzz_target!(init: fz::init("fuzz_sidecar"), |data: &[u8]| {
    if data.len() < 4 {
        return;
    }
    let hint = fz::format_for(data[0]);
    let want = u32::from_le_bytes([data[1], data[2], data[3], 0]) as usize;
    let rest = &data[4..];
    let mlen = want.min(rest.len());
    let (manifest, asset) = rest.split_at(mlen);
    fz::guard(|| {
        let ctx = fz::ctx();
        if let Ok(r) = c2pa::Reader::from_context(ctx).with_manifest_data_and_stream(manifest, hint, Cursor::new(asset)) {
            fz::exercise(&r);
        }
    });
});
