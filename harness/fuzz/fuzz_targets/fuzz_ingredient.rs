//! fuzz_ingredient: [fmt] [opts] asset → `Builder::add_ingredient_from_stream`; when the ingredient is
//! accepted and opts bit 1 is set, a tiny PNG is signed with it.
//! opts: bit0 parentOf / componentOf, bit1 sign afterwards, bit2 automatic ingredient thumbnails on (the SDK
//! default: the `image` crate decodes the untrusted bytes; the SDK caps the decoded size at 512 MiB).
#![no_main]
use std::io::Cursor;

use c2pa::{Builder, BuilderIntent, DigitalSourceType};
use libfuzzer_sys::fuzz_target;

const DEF: &str = r#"{"title":"t","claim_generator_info":[{"name":"verif-fuzz","version":"0.1"}]}"#;

fuzz_target!(init: fz::init("fuzz_ingredient"), |data: &[u8]| {
    if data.len() < 2 {
        return;
    }
    let hint = fz::format_for(data[0]);
    let opts = data[1];
    let body = &data[2..];
    fz::guard(|| {
        let ctx = if opts & 4 != 0 { fz::ctx_thumbnails() } else { fz::ctx() };
        let Ok(mut b) = Builder::from_context(ctx).with_definition(DEF) else { return };
        let parent = opts & 1 == 0;
        let ing = if parent {
            r#"{"title":"ing","relationship":"parentOf"}"#
        } else {
            r#"{"title":"ing","relationship":"componentOf"}"#
        };
        let accepted = b.add_ingredient_from_stream(ing, hint, &mut Cursor::new(body)).is_ok();
        if accepted {
            fz::count("ingredient_accepted");
        }
        if accepted && opts & 2 != 0 {
            b.set_intent(if parent { BuilderIntent::Edit } else { BuilderIntent::Create(DigitalSourceType::Empty) });
            let png = vh::assets::synth_default("png");
            let signer = fz::signer();
            let mut out = Cursor::new(Vec::new());
            if b.sign(signer.as_ref(), "image/png", &mut Cursor::new(png.bytes), &mut out).is_ok() {
                fz::count("signed_with_ingredient");
            }
        }
    });
});
