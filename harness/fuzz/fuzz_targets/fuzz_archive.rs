//! fuzz_archive: [api] bytes → 0: `Builder::from_archive` (deprecated, thread-local default settings),
//! 1: `Builder::from_context(ctx).with_archive`, 2: `Builder::add_ingredient_from_archive`.
#![no_main]
use std::io::Cursor;

use c2pa::Builder;
use libfuzzer_sys::fuzz_target;

const DEF: &str = r#"{"title":"t","claim_generator_info":[{"name":"verif-fuzz","version":"0.1"}]}"#;

fuzz_target!(init: fz::init("fuzz_archive"), |data: &[u8]| {
    if data.is_empty() {
        return;
    }
    let api = data[0] % 3;
    let body = &data[1..];
    fz::guard(|| {
        let ctx = fz::ctx();
        match api {
            0 => {
                #[allow(deprecated)]
                if let Ok(b) = Builder::from_archive(Cursor::new(body)) {
                    fz::count("from_archive_ok");
                    let _ = b.definition.ingredients.len();
                }
            }
            1 => {
                if let Ok(b) = Builder::from_context(ctx).with_archive(Cursor::new(body)) {
                    fz::count("with_archive_ok");
                    let _ = b.definition.ingredients.len();
                    // a restored builder is used to write an archive again
                    let mut out = Cursor::new(Vec::new());
                    let _ = b.to_archive(&mut out);
                }
            }
            _ => {
                if let Ok(mut b) = Builder::from_context(ctx).with_definition(DEF) {
                    if b.add_ingredient_from_archive(&mut Cursor::new(body)).is_ok() {
                        fz::count("ingredient_from_archive_ok");
                    }
                }
            }
        }
    });
});
