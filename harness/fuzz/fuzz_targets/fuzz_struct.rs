//! fuzz_struct (structure-aware): the input is decoded with `arbitrary::Unstructured` into
//!   kind, embed mode, seed, size, hint selector, operation mask, 1..4 field-level corruptions.
//! `vh::assets::synth*` builds a *valid* container of that kind (optionally carrying a fake store, a real
//! signed store, or signed by the SDK on the spot); the corruptions (`vh::assets::Mutation`, plus
//! "interesting" 16/32-bit values for length / offset fields) are applied at positions chosen among
//! `stratified_positions(regions)` (every field boundary, every byte of small fields), so the fuzzer gets
//! past magic numbers and CRCs. The result is read, and optionally written to / ingested.
#![no_main]
use std::{io::Cursor, sync::OnceLock};

use arbitrary::Unstructured;
use libfuzzer_sys::fuzz_target;
use vh::{
    assets::{self, Mutation},
    rng::SplitMix64,
};

/// Real signed store (built once per process, immutable).
fn real_store() -> &'static [u8] {
    static S: OnceLock<Vec<u8>> = OnceLock::new();
    S.get_or_init(|| {
        let png = assets::synth_default("png");
        let signed = vh::sdk::sign_simple("image/png", &png.bytes, "fuzz_struct").expect("sign");
        vh::sdk::store_of("image/png", &signed).expect("store")
    })
}

const INTERESTING: [u32; 12] = [0, 1, 7, 8, 0x7f, 0xff, 0x100, 0xffff, 0x10000, 0x7fff_ffff, 0x8000_0000, 0xffff_ffff];

fn init() {
    fz::init("fuzz_struct");
    let _ = real_store();
}

fn decode(u: &mut Unstructured) -> arbitrary::Result<(&'static str, Vec<u8>, u8, u8)> {
    let kind = assets::KINDS[u.arbitrary::<u8>()? as usize % assets::KINDS.len()];
    let mode = u.arbitrary::<u8>()? % 8;
    let seed = u.arbitrary::<u32>()? as u64;
    let size = 64 + (u.arbitrary::<u16>()? as usize % 4000);
    let hint_sel = u.arbitrary::<u8>()?;
    let ops = u.arbitrary::<u8>()?;
    let n_mut = 1 + (u.arbitrary::<u8>()? % 4) as usize;
    let mut rng = SplitMix64::new(seed);
    let synth = match mode {
        0 | 1 => assets::synth(kind, &mut rng, size),
        2 | 3 => {
            let l = 46 + rng.usize(400);
            let fake = assets::fake_store(l, &mut rng);
            assets::synth_with_store(kind, &mut rng, size, &fake)
        }
        4..=6 => assets::synth_with_store(kind, &mut rng, size, real_store()),
        _ => {
            let s = assets::synth(kind, &mut rng, size.min(600));
            match vh::sdk::sign_simple(s.format, &s.bytes, "s") {
                // the region map of the unsigned asset no longer applies: fall back to random positions
                Ok(signed) => assets::Synth { bytes: signed, regions: vec![], offsets: vec![], ..s },
                Err(_) => s,
            }
        }
    };
    let mut bytes = synth.bytes.clone();
    let positions = assets::stratified_positions(&synth.regions, bytes.len(), &mut rng, 8);
    let pick = |u: &mut Unstructured, len: usize| -> arbitrary::Result<usize> {
        let i = u.arbitrary::<u16>()? as usize;
        Ok(if positions.is_empty() { if len == 0 { 0 } else { i % len } } else { positions[i % positions.len()] })
    };
    for _ in 0..n_mut {
        let class = u.arbitrary::<u8>()? % 11;
        let pos = pick(u, bytes.len())?;
        let a = u.arbitrary::<u8>()?;
        let b = u.arbitrary::<u8>()?;
        let m = match class {
            0 => Mutation::Flip { pos, bit: a & 7 },
            1 => Mutation::Set { pos, val: a },
            2 => {
                let n = (b % 16) as usize;
                Mutation::Insert { pos, bytes: u.bytes(n.min(u.len()))?.to_vec() }
            }
            3 => Mutation::Delete { pos, len: 1 + (a as usize % 64) },
            4 => Mutation::Truncate { pos },
            5 => {
                let n = (b % 32) as usize;
                Mutation::Append { bytes: u.bytes(n.min(u.len()))?.to_vec() }
            }
            6 => Mutation::Duplicate { start: pos, len: 1 + (a as usize) * 4 },
            7 => {
                let p2 = pick(u, bytes.len())?;
                let (x, y) = if pos <= p2 { (pos, p2) } else { (p2, pos) };
                Mutation::Swap { a_start: x, a_len: 1 + (a as usize % 64), b_start: y, b_len: 1 + (b as usize % 64) }
            }
            // interesting 32-bit / 16-bit values, big or little endian, written over a field
            8 | 9 => {
                let v = INTERESTING[a as usize % INTERESTING.len()];
                let raw = if b & 1 == 0 { v.to_be_bytes() } else { v.to_le_bytes() };
                let w: &[u8] = if class == 8 { &raw } else if b & 1 == 0 { &raw[2..] } else { &raw[..2] };
                for (i, x) in w.iter().enumerate() {
                    bytes = assets::apply(&bytes, &Mutation::Set { pos: pos + i, val: *x });
                }
                continue;
            }
            // add / subtract a small delta to a big-endian 32-bit field
            _ => {
                if pos + 4 <= bytes.len() {
                    let cur = u32::from_be_bytes([bytes[pos], bytes[pos + 1], bytes[pos + 2], bytes[pos + 3]]);
                    let d = (a % 32) as u32 + 1;
                    let nv = if b & 1 == 0 { cur.wrapping_add(d) } else { cur.wrapping_sub(d) };
                    bytes[pos..pos + 4].copy_from_slice(&nv.to_be_bytes());
                }
                continue;
            }
        };
        bytes = assets::apply(&bytes, &m);
    }
    Ok((synth.format, bytes, hint_sel, ops))
}

fuzz_target!(init: init(), |data: &[u8]| {
    fz::guard(|| {
        let mut u = Unstructured::new(data);
        // the synthesiser and mutators are harness code: a panic in there is reported as harness:…
        let Ok((format, bytes, hint_sel, ops)) = decode(&mut u) else { return };
        let hint = if hint_sel < 224 { format } else { fz::format_for(hint_sel) };
        if ops & 3 != 3 {
            let ctx = fz::ctx();
            if let Ok(r) = c2pa::Reader::from_context(ctx).with_stream(hint, Cursor::new(&bytes)) {
                fz::count("read_ok");
                fz::exercise(&r);
            }
        }
        if ops & 4 != 0 {
            let mut rng = SplitMix64::new(ops as u64);
            let store = assets::fake_store(46 + (ops as usize) * 3, &mut rng);
            if let Ok(out) = c2pa::jumbf_io::save_jumbf_to_memory(hint, &bytes, &store) {
                fz::count("save_ok");
                let _ = c2pa::jumbf_io::load_jumbf_from_memory(hint, &out);
            }
            let _ = c2pa::verif_hooks::remove_manifest(hint, &bytes);
            let _ = c2pa::verif_hooks::object_locations(hint, &bytes);
            let _ = c2pa::verif_hooks::box_map(hint, &bytes);
        }
        if ops & 8 != 0 {
            let ctx = fz::ctx();
            if let Ok(mut b) = c2pa::Builder::from_context(ctx).with_definition(r#"{"title":"t"}"#) {
                if b.add_ingredient_from_stream(r#"{"title":"i","relationship":"componentOf"}"#, hint, &mut Cursor::new(&bytes)).is_ok() {
                    fz::count("ingredient_ok");
                }
            }
        }
    });
});
