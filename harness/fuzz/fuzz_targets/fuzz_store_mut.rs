//! fuzz_store_mut (carries the C02 oracle): a fixed set of signed stores is built once per process
//! (immutable). The input selects a store and 1..3 byte-level mutations (positions biased to the JUMBF box
//! boundaries found by `vh::jumbf_walk`). Original and mutant are read as a sidecar manifest next to the
//! asset the store was made for. The mutant must be: a read error, or `Invalid`, or have a report
//! (`vh::sdk::report_same_bytes`) and verdict identical to the original; and when the mutant has the same
//! length and a byte inside the claim CBOR / an assertion payload / COSE protected / COSE signature differs,
//! it must not be Valid or Trusted at all. Otherwise `panic!("C02-ORACLE: …")`.
#![no_main]
use std::{io::Cursor, sync::OnceLock};

use arbitrary::Unstructured;
use c2pa::{Builder, BuilderIntent, DigitalSourceType, Reader};
use libfuzzer_sys::fuzz_target;
use serde_json::{json, Value};
use vh::{
    assets::{self, Mutation},
    jumbf_walk as jw, sdk,
};

struct Target {
    name: &'static str,
    mime: &'static str,
    asset: Vec<u8>,
    store: Vec<u8>,
    boxes: Vec<jw::BoxInfo>,
    /// box boundaries and header bytes
    positions: Vec<usize>,
    report: Value,
    verdict: sdk::Verdict,
}

fn settings(compress: bool) -> Value {
    let mut s = sdk::base_settings(true);
    sdk::merge(&mut s, &json!({"core": {"max_decompressed_manifest_size_in_mb": 1, "prefer_compress_manifests": compress}}));
    s
}

fn def(title: &str, ver: u8) -> Value {
    json!({
        "title": title,
        "claim_version": ver,
        "claim_generator_info": [{ "name": "verif-fuzz", "version": "0.1" }],
        "assertions": [ { "label": "org.verif.note", "data": { "note": "hello", "n": 1, "list": [1, 2, 3], "big": 70000 } } ]
    })
}

/// (detached store, the asset it was made for)
fn sign_detached(compress: bool, d: &Value, intent: Option<BuilderIntent>, alg: &str, mime: &str, src: &[u8], parent: Option<&[u8]>) -> (Vec<u8>, Vec<u8>) {
    let mut b = Builder::from_context(sdk::context_with(&settings(compress))).with_definition(d.to_string()).expect("definition");
    if let Some(i) = intent {
        b.set_intent(i);
    }
    if let Some(p) = parent {
        b.add_ingredient_from_stream(r#"{"title":"parent","relationship":"parentOf"}"#, mime, &mut Cursor::new(p)).expect("parent ingredient");
    }
    b.set_no_embed(true);
    let mut out = Cursor::new(Vec::new());
    let store = b.sign(sdk::signer(alg).as_ref(), mime, &mut Cursor::new(src), &mut out).expect("sign");
    (store, out.into_inner())
}

fn read(t_mime: &str, asset: &[u8], store: &[u8]) -> c2pa::Result<Reader> {
    Reader::from_context(sdk::context_with(&settings(false))).with_manifest_data_and_stream(store, t_mime, Cursor::new(asset))
}

fn targets() -> &'static Vec<Target> {
    static T: OnceLock<Vec<Target>> = OnceLock::new();
    T.get_or_init(|| {
        let create = || Some(BuilderIntent::Create(DigitalSourceType::Empty));
        let jpg = assets::synth_default("jpeg").bytes;
        let png = assets::synth_default("png").bytes;
        let mime_j = "image/jpeg";
        let mime_p = "image/png";
        let mut raw: Vec<(&'static str, &'static str, (Vec<u8>, Vec<u8>))> = vec![];
        raw.push(("single", mime_j, sign_detached(false, &def("single", 2), create(), "ed25519", mime_j, &jpg, None)));
        // chain: child (es256, Edit) with a signed parent (ed25519)
        let parent = sdk::sign_simple(mime_j, &jpg, "parent").expect("parent");
        raw.push(("chain", mime_j, sign_detached(false, &def("child", 2), Some(BuilderIntent::Edit), "es256", mime_j, &parent, Some(&parent))));
        raw.push(("compressed", mime_p, sign_detached(true, &def("compressed", 2), create(), "ed25519", mime_p, &png, None)));
        raw.push(("v1ps256", mime_j, sign_detached(false, &def("v1", 1), None, "ps256", mime_j, &jpg, None)));
        raw.into_iter()
            .map(|(name, mime, (store, asset))| {
                let boxes = jw::walk_store(&store).expect("own store walks");
                let mut positions = vec![];
                for b in &boxes {
                    let h = b.header();
                    positions.extend(h.start..h.end);
                    positions.push(b.end().saturating_sub(1));
                    let p = b.payload();
                    positions.extend(p.start..(p.start + 4).min(p.end));
                }
                positions.sort_unstable();
                positions.dedup();
                positions.retain(|p| *p < store.len());
                let r = read(mime, &asset, &store).expect("original store reads");
                let verdict = sdk::verdict(&r);
                assert!(verdict.state != "Invalid", "fuzz_store_mut: original store {name} is Invalid: {:?}", verdict.codes);
                Target { name, mime, report: sdk::report_same_bytes(&r), verdict, asset, store, boxes, positions }
            })
            .collect()
    })
}

fn init() {
    fz::init("fuzz_store_mut");
    let _ = targets();
}

fn decode<'a>(u: &mut Unstructured, ts: &'a [Target]) -> arbitrary::Result<(&'a Target, Vec<u8>)> {
    let t = &ts[u.arbitrary::<u8>()? as usize % ts.len()];
    let n = 1 + (u.arbitrary::<u8>()? % 3) as usize;
    let mut bytes = t.store.clone();
    for _ in 0..n {
        let class = u.arbitrary::<u8>()? % 9;
        let sel = u.arbitrary::<u16>()? as usize;
        let structural = u.arbitrary::<bool>()?;
        let pos = if structural && !t.positions.is_empty() { t.positions[sel % t.positions.len()] } else { sel % t.store.len() };
        let a = u.arbitrary::<u8>()?;
        let b = u.arbitrary::<u8>()?;
        let m = match class {
            0 | 1 => Mutation::Flip { pos, bit: a & 7 },
            2 => Mutation::Set { pos, val: a },
            3 => {
                let k = (b % 16) as usize;
                Mutation::Insert { pos, bytes: u.bytes(k.min(u.len()))?.to_vec() }
            }
            4 => Mutation::Delete { pos, len: 1 + (a as usize % 32) },
            5 => Mutation::Truncate { pos },
            6 => Mutation::Duplicate { start: pos, len: 1 + (a as usize) * 2 },
            7 => {
                let sel2 = u.arbitrary::<u16>()? as usize;
                let p2 = if !t.positions.is_empty() { t.positions[sel2 % t.positions.len()] } else { sel2 % t.store.len() };
                let (x, y) = if pos <= p2 { (pos, p2) } else { (p2, pos) };
                Mutation::Swap { a_start: x, a_len: 1 + (a as usize % 64), b_start: y, b_len: 1 + (b as usize % 64) }
            }
            _ => {
                let k = (b % 16) as usize;
                Mutation::Append { bytes: u.bytes(k.min(u.len()))?.to_vec() }
            }
        };
        bytes = assets::apply(&bytes, &m);
    }
    Ok((t, bytes))
}

fuzz_target!(init: init(), |data: &[u8]| {
    fz::guard(|| {
        let ts = targets();
        let mut u = Unstructured::new(data);
        let Ok((t, mutant)) = decode(&mut u, ts) else { return };
        if mutant == t.store {
            return;
        }
        let Ok(r) = read(t.mime, &t.asset, &mutant) else {
            fz::count("mutant:read-error");
            return;
        };
        let v = sdk::verdict(&r);
        if v.state == "Invalid" {
            fz::count("mutant:invalid");
            return;
        }
        // first differing byte and its class in the original store
        let first = t.store.iter().zip(mutant.iter()).position(|(a, b)| a != b).unwrap_or(t.store.len().min(mutant.len()));
        let class = jw::classify(&t.boxes, first.min(t.store.len().saturating_sub(1))).name();
        let rep = sdk::report_same_bytes(&r);
        let same = rep == t.report && v == t.verdict;
        if mutant.len() == t.store.len() {
            let strict = t.store.iter().zip(mutant.iter()).enumerate().filter(|(_, (a, b))| a != b).map(|(i, _)| jw::classify(&t.boxes, i)).find(|c| c.is_strict());
            if let Some(c) = strict {
                panic!(
                    "C02-ORACLE: sig=C10:c02-oracle:changed-{}-reported-valid:{} :: store {}: a byte inside {} differs (first difference at offset {first}) and the store is still reported {} (was {}); report {}",
                    c.name(), t.name, t.name, c.name(), v.state, t.verdict.state, if same { "identical" } else { "differs" }
                );
            }
        }
        if !same {
            panic!(
                "C02-ORACLE: sig=C10:c02-oracle:report-changed-still-valid:{class}:{} :: store {}: mutant ({} bytes, original {}; first difference at offset {first}, class {class}) reads {} (was {}) with a different report / verdict codes",
                t.name, t.name, mutant.len(), t.store.len(), v.state, t.verdict.state
            );
        }
        fz::count("mutant:valid-identical-report");
    });
});
