//! fuzz_write: [fmt] [store_len:2 LE] [seed] asset → `jumbf_io::save_jumbf_to_memory` with a well-formed fake
//! store (`vh::assets::fake_store`, 46 + store_len bytes), `load_jumbf_from_memory` of the result, and the
//! hooks `remove_manifest`, `object_locations`, `box_map` on the input.
#![no_main]
use libfuzzer_sys::fuzz_target;

fuzz_target!(init: fz::init("fuzz_write"), |data: &[u8]| {
    if data.len() < 4 {
        return;
    }
    let fmt = fz::format_for(data[0]);
    let store_len = 46 + u16::from_le_bytes([data[1], data[2]]) as usize;
    let seed = data[3] as u64;
    let asset = &data[4..];
    fz::guard(|| {
        let mut rng = vh::rng::SplitMix64::new(seed);
        let store = vh::assets::fake_store(store_len, &mut rng);
        if let Ok(out) = c2pa::jumbf_io::save_jumbf_to_memory(fmt, asset, &store) {
            fz::count("save_ok");
            let _ = c2pa::jumbf_io::load_jumbf_from_memory(fmt, &out);
            let _ = c2pa::verif_hooks::remove_manifest(fmt, &out);
        }
        let _ = c2pa::jumbf_io::load_jumbf_from_memory(fmt, asset);
        let _ = c2pa::verif_hooks::remove_manifest(fmt, asset);
        let _ = c2pa::verif_hooks::object_locations(fmt, asset);
        let _ = c2pa::verif_hooks::box_map(fmt, asset);
    });
});
