//! fuzz_store: the input is a manifest store read as `application/c2pa`
//! (JUMBF boxes, CBOR claims / assertions, COSE, X.509, brotli).
#![no_main]
use std::io::Cursor;

use libfuzzer_sys::fuzz_target;

fuzz_target!(init: fz::init("fuzz_store"), |data: &[u8]| {
    fz::guard(|| {
        let ctx = fz::ctx();
        if let Ok(r) = c2pa::Reader::from_context(ctx).with_stream("application/c2pa", Cursor::new(data)) {
            fz::exercise(&r);
        }
    });
});
